import Mrpro.Model.Signal
import Mathlib.Analysis.SpecialFunctions.Exp
import Mathlib.Analysis.SpecialFunctions.Log.Basic
import Mathlib.Analysis.SpecialFunctions.Log.Deriv
import Mathlib.Analysis.SpecialFunctions.ExpDeriv
import Mathlib.Analysis.SpecialFunctions.Sqrt
import Mathlib.Analysis.SpecialFunctions.Trigonometric.Basic
import Mathlib.Analysis.SpecialFunctions.Trigonometric.Deriv
import Mathlib.Analysis.Calculus.Deriv.Inv
import Mathlib.Tactic.Ring
import Mathlib.Tactic.FieldSimp
import Mathlib.Tactic.Linarith
import Mathlib.Tactic.Positivity
import Mathlib.Tactic.NormNum
/-! Proofs for `Mrpro/Props/C17.lean`. -/
namespace M

noncomputable instance : Transc ℝ where
  exp := Real.exp
  log := Real.log
  cos := Real.cos
  sin := Real.sin
  sqrt := Real.sqrt
  sinc := fun x => if x = 0 then 1 else Real.sin (Real.pi * x) / (Real.pi * x)
  pi := Real.pi

@[simp] theorem exp_eq (x : ℝ) : (exp x : ℝ) = Real.exp x := rfl
@[simp] theorem log_eq (x : ℝ) : (log x : ℝ) = Real.log x := rfl

theorem sigmoidT_eq (β x : ℝ) : sigmoidT β x = 1 / (1 + Real.exp (-(β * x))) := rfl
theorem sigmoidInvT_eq (β p : ℝ) : sigmoidInvT β p = Real.log (p / (1 - p)) / β := rfl
theorem softplusT_eq (β x : ℝ) : softplusT β x = Real.log (1 + Real.exp (β * x)) / β := rfl
theorem softplusInvT_eq (β y : ℝ) :
    softplusInvT β y = y + Real.log (1 - Real.exp (-(β * y))) / β := rfl
theorem softplusInvShipped_eq (β y : ℝ) :
    softplusInvShipped β y = β * y + Real.log (1 - Real.exp (-(β * y))) := rfl

theorem sigmoid_strictMono (β : ℝ) (hβ : 0 < β) : StrictMono (sigmoidT β) := by
  intro a b hab
  rw [sigmoidT_eq, sigmoidT_eq]
  have h : Real.exp (-(β * b)) < Real.exp (-(β * a)) := Real.exp_lt_exp.mpr (by nlinarith)
  have hb := Real.exp_pos (-(β * b))
  exact one_div_lt_one_div_of_lt (by linarith) (by linarith)

theorem sigmoid_range (β x : ℝ) : 0 < sigmoidT β x ∧ sigmoidT β x < 1 := by
  have h := Real.exp_pos (-(β * x))
  rw [sigmoidT_eq]
  constructor
  · positivity
  · rw [div_lt_one (by linarith)]; linarith

theorem softplus_strictMono (β : ℝ) (hβ : 0 < β) : StrictMono (softplusT β) := by
  intro a b hab
  rw [softplusT_eq, softplusT_eq]
  have h : Real.exp (β * a) < Real.exp (β * b) := Real.exp_lt_exp.mpr (by nlinarith)
  have ha := Real.exp_pos (β * a)
  exact div_lt_div_of_pos_right (Real.log_lt_log (by linarith) (by linarith)) hβ

theorem softplus_pos (β x : ℝ) (hβ : 0 < β) : 0 < softplusT β x := by
  rw [softplusT_eq]
  exact div_pos (Real.log_pos (by linarith [Real.exp_pos (β * x)])) hβ

theorem two_sided (βs βp l u : ℝ) (hβ : 0 < βs) (hlu : l < u) :
    StrictMono (constrainFwd βs βp (.fin l) (.fin u)) ∧
    ∀ x, l < constrainFwd βs βp (.fin l) (.fin u) x ∧ constrainFwd βs βp (.fin l) (.fin u) x < u := by
  have hul : 0 < u - l := by linarith
  refine ⟨?_, ?_⟩
  · intro a b hab
    show l + (u - l) * sigmoidT βs a < l + (u - l) * sigmoidT βs b
    have := sigmoid_strictMono βs hβ hab
    nlinarith
  · intro x
    obtain ⟨h0, h1⟩ := sigmoid_range βs x
    refine ⟨?_, ?_⟩
    · show l < l + (u - l) * sigmoidT βs x
      nlinarith
    · show l + (u - l) * sigmoidT βs x < u
      nlinarith

theorem lower_only (βs βp l : ℝ) (hβ : 0 < βp) :
    StrictMono (constrainFwd βs βp (.fin l) .none) ∧ (∀ x, l < constrainFwd βs βp (.fin l) .none x) ∧
    constrainFwd βs βp (.fin l) .posInf = constrainFwd βs βp (.fin l) .none := by
  refine ⟨?_, ?_, ?_⟩
  · intro a b hab
    show l + softplusT βp a < l + softplusT βp b
    have := softplus_strictMono βp hβ hab
    linarith
  · intro x
    show l < l + softplusT βp x
    have := softplus_pos βp x hβ
    linarith
  · funext x; rfl

theorem upper_only (βs βp u : ℝ) (hβ : 0 < βp) :
    StrictMono (constrainFwd βs βp .none (.fin u)) ∧ (∀ x, constrainFwd βs βp .none (.fin u) x < u) ∧
    constrainFwd βs βp .negInf (.fin u) = constrainFwd βs βp .none (.fin u) := by
  refine ⟨?_, ?_, ?_⟩
  · intro a b hab
    show u - softplusT βp (-a) < u - softplusT βp (-b)
    have := softplus_strictMono βp hβ (neg_lt_neg hab)
    linarith
  · intro x
    show u - softplusT βp (-x) < u
    have := softplus_pos βp (-x) hβ
    linarith
  · funext x; rfl

theorem sigmoidInv_sigmoid (β x : ℝ) (hβ : β ≠ 0) : sigmoidInvT β (sigmoidT β x) = x := by
  rw [sigmoidT_eq, sigmoidInvT_eq]
  have he := Real.exp_pos (β * x)
  have h : 1 / (1 + Real.exp (-(β * x))) / (1 - 1 / (1 + Real.exp (-(β * x)))) = Real.exp (β * x) := by
    rw [Real.exp_neg]
    field_simp
    ring
  rw [h, Real.log_exp]
  field_simp

theorem sigmoid_sigmoidInv (β p : ℝ) (hβ : β ≠ 0) (h0 : 0 < p) (h1 : p < 1) :
    sigmoidT β (sigmoidInvT β p) = p := by
  rw [sigmoidT_eq, sigmoidInvT_eq]
  have h1p : 0 < 1 - p := by linarith
  rw [mul_div_cancel₀ _ hβ, Real.exp_neg, Real.exp_log (div_pos h0 h1p)]
  field_simp
  ring

theorem softplus_beta_mul (β x : ℝ) (hβ : β ≠ 0) :
    β * softplusT β x = Real.log (1 + Real.exp (β * x)) := by
  rw [softplusT_eq, mul_div_cancel₀ _ hβ]

theorem log_one_sub_exp_neg_softplus (β x : ℝ) (hβ : β ≠ 0) :
    Real.log (1 - Real.exp (-(β * softplusT β x))) = β * x - Real.log (1 + Real.exp (β * x)) := by
  have he := Real.exp_pos (β * x)
  have h1 : 0 < 1 + Real.exp (β * x) := by linarith
  rw [softplus_beta_mul β x hβ, Real.exp_neg, Real.exp_log h1]
  have h : 1 - (1 + Real.exp (β * x))⁻¹ = Real.exp (β * x) / (1 + Real.exp (β * x)) := by
    field_simp
    ring
  rw [h, Real.log_div he.ne' h1.ne', Real.log_exp]

theorem softplusInv_softplus (β x : ℝ) (hβ : β ≠ 0) : softplusInvT β (softplusT β x) = x := by
  rw [softplusInvT_eq, log_one_sub_exp_neg_softplus β x hβ, softplusT_eq]
  field_simp
  ring

theorem softplus_softplusInv (β z : ℝ) (hβ : 0 < β) (hz : 0 < z) :
    softplusT β (softplusInvT β z) = z := by
  rw [softplusT_eq, softplusInvT_eq]
  have hlt : Real.exp (-(β * z)) < 1 := by
    rw [Real.exp_lt_one_iff]; nlinarith
  have hpos : 0 < 1 - Real.exp (-(β * z)) := by linarith
  have h : β * (z + Real.log (1 - Real.exp (-(β * z))) / β)
      = β * z + Real.log (1 - Real.exp (-(β * z))) := by
    field_simp
  rw [h, Real.exp_add, Real.exp_log hpos]
  have h2 : 1 + Real.exp (β * z) * (1 - Real.exp (-(β * z))) = Real.exp (β * z) := by
    rw [mul_sub, ← Real.exp_add]; simp
  rw [h2, Real.log_exp]
  field_simp

theorem inv_fwd_upper (β u x : ℝ) (hβ : β ≠ 0) :
    -softplusInvT β (-(u - softplusT β (-x) - u)) = x := by
  have h : -(u - softplusT β (-x) - u) = softplusT β (-x) := by ring
  rw [h, softplusInv_softplus β _ hβ, neg_neg]

theorem inv_fwd_lower (β l x : ℝ) (hβ : β ≠ 0) :
    softplusInvT β (l + softplusT β x - l) = x := by
  have h : l + softplusT β x - l = softplusT β x := by ring
  rw [h, softplusInv_softplus β _ hβ]

theorem inv_fwd_two (β l u x : ℝ) (hβ : β ≠ 0) (hlu : l < u) :
    sigmoidInvT β ((l + (u - l) * sigmoidT β x - l) / (u - l)) = x := by
  have hul : u - l ≠ 0 := by linarith
  have h : (l + (u - l) * sigmoidT β x - l) / (u - l) = sigmoidT β x := by
    field_simp
    ring
  rw [h, sigmoidInv_sigmoid β x hβ]

theorem inverse_forward (βs βp : ℝ) (hs : 0 < βs) (hp : 0 < βp) (lb ub : Bound ℝ)
    (hlu : ∀ l u, lb = .fin l → ub = .fin u → l < u) (x : ℝ) :
    constrainInv βs βp lb ub (constrainFwd βs βp lb ub x) = x := by
  cases lb <;> cases ub <;> simp only [constrainFwd, constrainInv]
  case none.fin u => exact inv_fwd_upper βp u x hp.ne'
  case negInf.fin u => exact inv_fwd_upper βp u x hp.ne'
  case fin.none l => exact inv_fwd_lower βp l x hp.ne'
  case fin.posInf l => exact inv_fwd_lower βp l x hp.ne'
  case fin.fin l u => exact inv_fwd_two βs l u x hs.ne' (hlu l u rfl rfl)

theorem forward_inverse_two_sided (βs βp l u y : ℝ) (hs : 0 < βs) (hlu : l < u) (hy : l < y ∧ y < u) :
    constrainFwd βs βp (.fin l) (.fin u) (constrainInv βs βp (.fin l) (.fin u) y) = y := by
  show l + (u - l) * sigmoidT βs (sigmoidInvT βs ((y - l) / (u - l))) = y
  have hul : 0 < u - l := sub_pos.mpr hlu
  rw [sigmoid_sigmoidInv βs _ hs.ne' (div_pos (by linarith) hul)
    (by rw [div_lt_one hul]; linarith)]
  field_simp
  ring

theorem forward_inverse_lower (βs βp l y : ℝ) (hp : 0 < βp) (hy : l < y) :
    constrainFwd βs βp (.fin l) .none (constrainInv βs βp (.fin l) .none y) = y := by
  show l + softplusT βp (softplusInvT βp (y - l)) = y
  rw [softplus_softplusInv βp _ hp (by linarith)]
  ring

theorem forward_inverse_upper (βs βp u y : ℝ) (hp : 0 < βp) (hy : y < u) :
    constrainFwd βs βp .none (.fin u) (constrainInv βs βp .none (.fin u) y) = y := by
  show u - softplusT βp (-(-(softplusInvT βp (-(y - u))))) = y
  rw [neg_neg, softplus_softplusInv βp _ hp (by linarith)]
  ring

theorem softplusInvShipped_wrong (β x : ℝ) (hβ : 0 < β) : softplusInvShipped β (softplusT β x) = β * x := by
  rw [softplusInvShipped_eq, log_one_sub_exp_neg_softplus β x hβ.ne', softplus_beta_mul β x hβ.ne']
  ring

theorem invRec_eq (m0 t1 ti : ℝ) : invRec m0 t1 ti = m0 * (1 - 2 * Real.exp (-(ti / t1))) := rfl
theorem satRec_eq (m0 t1 ti : ℝ) : satRec m0 t1 ti = m0 * (1 - Real.exp (-(ti / t1))) := rfl
theorem monoExp_eq (m0 td t : ℝ) : monoExp m0 td t = m0 * Real.exp (-(t / td)) := rfl
theorem molli_eq (a c t1 ti : ℝ) : molli a c t1 ti = a * (1 - c * Real.exp (ti / t1 * (1 - c))) := rfl

/-- `d/dt (ti / t) = -(ti / t²)` -/
theorem hasDerivAt_const_div (ti t1 : ℝ) (h : t1 ≠ 0) :
    HasDerivAt (fun t : ℝ => ti / t) (-(ti / (t1 * t1))) t1 := by
  have H : HasDerivAt (fun t : ℝ => ti / t) ((0 * t1 - ti * 1) / t1 ^ 2) t1 :=
    (hasDerivAt_const t1 ti).div (hasDerivAt_id t1) h
  exact H.congr_deriv (by ring)

/-- `d/dt exp (-(ti / t)) = exp (-(ti / t)) * (ti / t²)` -/
theorem hasDerivAt_exp_neg_div (ti t1 : ℝ) (h : t1 ≠ 0) :
    HasDerivAt (fun t : ℝ => Real.exp (-(ti / t))) (Real.exp (-(ti / t1)) * (ti / (t1 * t1))) t1 := by
  have H : HasDerivAt (fun t : ℝ => Real.exp (-(ti / t)))
      (Real.exp (-(ti / t1)) * -(-(ti / (t1 * t1)))) t1 :=
    (hasDerivAt_const_div ti t1 h).neg.exp
  exact H.congr_deriv (by ring)

/-- `d/dm (m * k) = k` -/
theorem hasDerivAt_mul_const' (k m0 : ℝ) : HasDerivAt (fun m : ℝ => m * k) k m0 := by
  have H : HasDerivAt (fun m : ℝ => m * k) (1 * k) m0 := (hasDerivAt_id m0).mul_const k
  exact H.congr_deriv (by ring)

theorem invRec_hasDerivAt_m0 (m0 t1 ti : ℝ) : HasDerivAt (fun m => invRec m t1 ti) (invRec_dm0 m0 t1 ti) m0 :=
  hasDerivAt_mul_const' (1 - 2 * Real.exp (-(ti / t1))) m0
theorem invRec_hasDerivAt_t1 (m0 t1 ti : ℝ) (h : t1 ≠ 0) : HasDerivAt (fun t => invRec m0 t ti) (invRec_dt1 m0 t1 ti) t1 := by
  have H : HasDerivAt (fun t : ℝ => m0 * (1 - 2 * Real.exp (-(ti / t))))
      (m0 * -(2 * (Real.exp (-(ti / t1)) * (ti / (t1 * t1))))) t1 :=
    (((hasDerivAt_exp_neg_div ti t1 h).const_mul 2).const_sub 1).const_mul m0
  refine H.congr_deriv ?_
  show _ = -(2 * m0 * Real.exp (-(ti / t1)) * (ti / (t1 * t1)))
  ring
theorem satRec_hasDerivAt_m0 (m0 t1 ti : ℝ) : HasDerivAt (fun m => satRec m t1 ti) (satRec_dm0 m0 t1 ti) m0 :=
  hasDerivAt_mul_const' (1 - Real.exp (-(ti / t1))) m0
theorem satRec_hasDerivAt_t1 (m0 t1 ti : ℝ) (h : t1 ≠ 0) : HasDerivAt (fun t => satRec m0 t ti) (satRec_dt1 m0 t1 ti) t1 := by
  have H : HasDerivAt (fun t : ℝ => m0 * (1 - Real.exp (-(ti / t))))
      (m0 * -(Real.exp (-(ti / t1)) * (ti / (t1 * t1)))) t1 :=
    ((hasDerivAt_exp_neg_div ti t1 h).const_sub 1).const_mul m0
  refine H.congr_deriv ?_
  show _ = -(m0 * Real.exp (-(ti / t1)) * (ti / (t1 * t1)))
  ring
theorem monoExp_hasDerivAt_m0 (m0 td t : ℝ) : HasDerivAt (fun m => monoExp m td t) (monoExp_dm0 m0 td t) m0 :=
  hasDerivAt_mul_const' (Real.exp (-(t / td))) m0
theorem monoExp_hasDerivAt_td (m0 td t : ℝ) (h : td ≠ 0) : HasDerivAt (fun d => monoExp m0 d t) (monoExp_dtd m0 td t) td := by
  have H : HasDerivAt (fun d : ℝ => m0 * Real.exp (-(t / d)))
      (m0 * (Real.exp (-(t / td)) * (t / (td * td)))) td :=
    (hasDerivAt_exp_neg_div t td h).const_mul m0
  refine H.congr_deriv ?_
  show _ = m0 * Real.exp (-(t / td)) * (t / (td * td))
  ring
theorem molli_hasDerivAt_a (a c t1 ti : ℝ) : HasDerivAt (fun v => molli v c t1 ti) (molli_da a c t1 ti) a :=
  hasDerivAt_mul_const' (1 - c * Real.exp (ti / t1 * (1 - c))) a
theorem molli_hasDerivAt_c (a c t1 ti : ℝ) : HasDerivAt (fun v => molli a v t1 ti) (molli_dc a c t1 ti) c := by
  have H1 : HasDerivAt (fun v : ℝ => ti / t1 * (1 - v)) (ti / t1 * -1) c :=
    ((hasDerivAt_id c).const_sub 1).const_mul (ti / t1)
  have H2 : HasDerivAt (fun v : ℝ => v * Real.exp (ti / t1 * (1 - v)))
      (1 * Real.exp (ti / t1 * (1 - c)) + c * (Real.exp (ti / t1 * (1 - c)) * (ti / t1 * -1))) c :=
    (hasDerivAt_id c).mul H1.exp
  have H : HasDerivAt (fun v : ℝ => a * (1 - v * Real.exp (ti / t1 * (1 - v))))
      (a * -(1 * Real.exp (ti / t1 * (1 - c)) + c * (Real.exp (ti / t1 * (1 - c)) * (ti / t1 * -1)))) c :=
    (H2.const_sub 1).const_mul a
  refine H.congr_deriv ?_
  show _ = -(a * (Real.exp (ti / t1 * (1 - c)) - c * Real.exp (ti / t1 * (1 - c)) * (ti / t1)))
  ring
theorem molli_hasDerivAt_t1 (a c t1 ti : ℝ) (h : t1 ≠ 0) : HasDerivAt (fun v => molli a c v ti) (molli_dt1 a c t1 ti) t1 := by
  have H1 : HasDerivAt (fun v : ℝ => ti / v * (1 - c)) (-(ti / (t1 * t1)) * (1 - c)) t1 :=
    (hasDerivAt_const_div ti t1 h).mul_const (1 - c)
  have H : HasDerivAt (fun v : ℝ => a * (1 - c * Real.exp (ti / v * (1 - c))))
      (a * -(c * (Real.exp (ti / t1 * (1 - c)) * (-(ti / (t1 * t1)) * (1 - c))))) t1 :=
    ((H1.exp.const_mul c).const_sub 1).const_mul a
  refine H.congr_deriv ?_
  show _ = a * c * Real.exp (ti / t1 * (1 - c)) * (ti * (1 - c) / (t1 * t1))
  ring
theorem invRec_at_zero (m0 t1 : ℝ) : invRec m0 t1 0 = -m0 := by
  rw [invRec_eq, zero_div, neg_zero, Real.exp_zero]; ring
theorem satRec_at_zero (m0 t1 : ℝ) : satRec m0 t1 0 = 0 := by
  rw [satRec_eq, zero_div, neg_zero, Real.exp_zero]; ring
theorem monoExp_at_zero (m0 td : ℝ) : monoExp m0 td 0 = m0 := by
  rw [monoExp_eq, zero_div, neg_zero, Real.exp_zero]; ring

/-! ### `tss`, `wasabi`, `wasabiti`: closed forms at ℝ and their partial derivatives -/

theorem sq_eq (x : ℝ) : sq x = x * x := rfl
theorem sinc_eq (x : ℝ) : (sinc x : ℝ) = if x = 0 then 1 else Real.sin (Real.pi * x) / (Real.pi * x) := rfl
theorem sinc_of_ne (x : ℝ) (h : x ≠ 0) : (sinc x : ℝ) = Real.sin (Real.pi * x) / (Real.pi * x) := by
  rw [sinc_eq, if_neg h]
theorem dsinc_eq (x : ℝ) : dsinc x = (Real.cos (Real.pi * x) - sinc x) / x := rfl

/-- `d/dx sinc x = (cos(πx) − sinc x)/x` for `x ≠ 0` -/
theorem hasDerivAt_sinc (x : ℝ) (hx : x ≠ 0) : HasDerivAt (fun y : ℝ => (sinc y : ℝ)) (dsinc x) x := by
  have hpi : Real.pi ≠ 0 := Real.pi_ne_zero
  have hlin : HasDerivAt (fun y : ℝ => Real.pi * y) (Real.pi * 1) x := (hasDerivAt_id x).const_mul Real.pi
  have H : HasDerivAt (fun y : ℝ => Real.sin (Real.pi * y) / (Real.pi * y))
      ((Real.cos (Real.pi * x) * (Real.pi * 1) * (Real.pi * x) - Real.sin (Real.pi * x) * (Real.pi * 1))
        / (Real.pi * x) ^ 2) x :=
    hlin.sin.div hlin (mul_ne_zero hpi hx)
  have H' : HasDerivAt (fun y : ℝ => (sinc y : ℝ))
      ((Real.cos (Real.pi * x) * (Real.pi * 1) * (Real.pi * x) - Real.sin (Real.pi * x) * (Real.pi * 1))
        / (Real.pi * x) ^ 2) x := by
    refine H.congr_of_eventuallyEq ?_
    filter_upwards [eventually_ne_nhds hx] with y hy
    exact sinc_of_ne y hy
  refine H'.congr_deriv ?_
  rw [dsinc_eq, sinc_of_ne x hx]
  field_simp

/-- chain rule through `sinc(tp·√u)²`, the common core of `wasabi` and `wasabiti` -/
theorem hasDerivAt_sq_sinc_sqrt {u : ℝ → ℝ} {u' p0 : ℝ} (tp : ℝ) (hu : HasDerivAt u u' p0)
    (hx : tp * Real.sqrt (u p0) ≠ 0) :
    HasDerivAt (fun p : ℝ => sq (sinc (tp * Real.sqrt (u p)) : ℝ))
      (2 * sinc (tp * Real.sqrt (u p0)) * (dsinc (tp * Real.sqrt (u p0)) * (tp * (u' / (2 * Real.sqrt (u p0)))))) p0 := by
  have hs : Real.sqrt (u p0) ≠ 0 := right_ne_zero_of_mul hx
  have hu0 : u p0 ≠ 0 := fun h => hs (by rw [h, Real.sqrt_zero])
  have H1 : HasDerivAt (fun p : ℝ => tp * Real.sqrt (u p)) (tp * (u' / (2 * Real.sqrt (u p0)))) p0 :=
    (hu.sqrt hu0).const_mul tp
  have H2 : HasDerivAt (fun p : ℝ => (sinc (tp * Real.sqrt (u p)) : ℝ))
      (dsinc (tp * Real.sqrt (u p0)) * (tp * (u' / (2 * Real.sqrt (u p0))))) p0 :=
    (hasDerivAt_sinc _ hx).comp p0 H1
  have H3 := H2.mul H2
  refine H3.congr_deriv ?_
  ring

/-! #### TransientSteadyStateWithPreparation -/
theorem tss_eq (m0 t1 alpha ts tr scal delay : ℝ) : tss m0 t1 alpha ts tr scal delay =
    m0 / (1 - t1 * (Real.log (Real.cos alpha) / tr)) +
      (m0 + (m0 * scal - m0) * Real.exp (-(delay / t1)) - m0 / (1 - t1 * (Real.log (Real.cos alpha) / tr))) *
        Real.exp (-ts * (1 / t1 - Real.log (Real.cos alpha) / tr)) := rfl
theorem tss_dm0_eq (m0 t1 alpha ts tr scal delay : ℝ) : tss_dm0 m0 t1 alpha ts tr scal delay =
    1 / (1 - t1 * (Real.log (Real.cos alpha) / tr)) +
      (1 + (scal - 1) * Real.exp (-(delay / t1)) - 1 / (1 - t1 * (Real.log (Real.cos alpha) / tr))) *
        Real.exp (-ts * (1 / t1 - Real.log (Real.cos alpha) / tr)) := rfl
theorem tss_dt1_eq (m0 t1 alpha ts tr scal delay : ℝ) : tss_dt1 m0 t1 alpha ts tr scal delay =
    m0 * (Real.log (Real.cos alpha) / tr) /
        ((1 - t1 * (Real.log (Real.cos alpha) / tr)) * (1 - t1 * (Real.log (Real.cos alpha) / tr))) +
      ((m0 * scal - m0) * (Real.exp (-(delay / t1)) * (delay / (t1 * t1))) -
        m0 * (Real.log (Real.cos alpha) / tr) /
          ((1 - t1 * (Real.log (Real.cos alpha) / tr)) * (1 - t1 * (Real.log (Real.cos alpha) / tr)))) *
        Real.exp (-ts * (1 / t1 - Real.log (Real.cos alpha) / tr)) +
      (m0 + (m0 * scal - m0) * Real.exp (-(delay / t1)) - m0 / (1 - t1 * (Real.log (Real.cos alpha) / tr))) *
        (Real.exp (-ts * (1 / t1 - Real.log (Real.cos alpha) / tr)) * (ts / (t1 * t1))) := rfl
theorem tss_dalpha_eq (m0 t1 alpha ts tr scal delay : ℝ) : tss_dalpha m0 t1 alpha ts tr scal delay =
    m0 * (t1 * (-(Real.sin alpha / Real.cos alpha) / tr)) /
        ((1 - t1 * (Real.log (Real.cos alpha) / tr)) * (1 - t1 * (Real.log (Real.cos alpha) / tr))) *
        (1 - Real.exp (-ts * (1 / t1 - Real.log (Real.cos alpha) / tr))) +
      (m0 + (m0 * scal - m0) * Real.exp (-(delay / t1)) - m0 / (1 - t1 * (Real.log (Real.cos alpha) / tr))) *
        (Real.exp (-ts * (1 / t1 - Real.log (Real.cos alpha) / tr)) *
          (ts * (-(Real.sin alpha / Real.cos alpha) / tr))) := rfl

theorem tss_hasDerivAt_m0 (m0 t1 alpha ts tr scal delay : ℝ) :
    HasDerivAt (fun m => tss m t1 alpha ts tr scal delay) (tss_dm0 m0 t1 alpha ts tr scal delay) m0 := by
  have hid : HasDerivAt (fun m : ℝ => m) 1 m0 := hasDerivAt_id' m0
  have hM := hid.div_const (1 - t1 * (Real.log (Real.cos alpha) / tr))
  have hS := hid.add (((hid.mul_const scal).sub hid).mul_const (Real.exp (-(delay / t1))))
  have H := hM.add ((hS.sub hM).mul_const (Real.exp (-ts * (1 / t1 - Real.log (Real.cos alpha) / tr))))
  refine H.congr_deriv ?_
  rw [tss_dm0_eq]
  ring

theorem tss_hasDerivAt_t1 (m0 t1 alpha ts tr scal delay : ℝ) (h : t1 ≠ 0)
    (hden : 1 - t1 * (Real.log (Real.cos alpha) / tr) ≠ 0) :
    HasDerivAt (fun t => tss m0 t alpha ts tr scal delay) (tss_dt1 m0 t1 alpha ts tr scal delay) t1 := by
  have hD : HasDerivAt (fun t : ℝ => 1 - t * (Real.log (Real.cos alpha) / tr))
      (-(1 * (Real.log (Real.cos alpha) / tr))) t1 :=
    ((hasDerivAt_id' t1).mul_const _).const_sub 1
  have hM := (hasDerivAt_const t1 m0).fun_div hD hden
  have hS := ((hasDerivAt_exp_neg_div delay t1 h).const_mul (m0 * scal - m0)).const_add m0
  have hE := (((hasDerivAt_const_div 1 t1 h).sub_const (Real.log (Real.cos alpha) / tr)).const_mul (-ts)).exp
  have H := hM.fun_add ((hS.fun_sub hM).fun_mul hE)
  refine H.congr_deriv ?_
  rw [tss_dt1_eq]
  ring

theorem tss_hasDerivAt_alpha (m0 t1 alpha ts tr scal delay : ℝ) (hcos : Real.cos alpha ≠ 0)
    (hden : 1 - t1 * (Real.log (Real.cos alpha) / tr) ≠ 0) :
    HasDerivAt (fun a => tss m0 t1 a ts tr scal delay) (tss_dalpha m0 t1 alpha ts tr scal delay) alpha := by
  have hL : HasDerivAt (fun a : ℝ => Real.log (Real.cos a) / tr) (-Real.sin alpha / Real.cos alpha / tr) alpha :=
    ((Real.hasDerivAt_cos alpha).log hcos).div_const tr
  have hD := (hL.const_mul t1).const_sub 1
  have hM := (hasDerivAt_const alpha m0).fun_div hD hden
  have hE := ((hL.const_sub (1 / t1)).const_mul (-ts)).exp
  have H := hM.fun_add ((hM.const_sub (m0 + (m0 * scal - m0) * Real.exp (-(delay / t1)))).fun_mul hE)
  refine H.congr_deriv ?_
  rw [tss_dalpha_eq]
  ring

/-- without preparation (`delay = 0`, `scal = 1`) the magnetisation starts at `m0` -/
theorem tss_no_preparation (m0 t1 alpha ts tr : ℝ) :
    tss m0 t1 alpha ts tr 1 0 =
      m0 / (1 - t1 * (Real.log (Real.cos alpha) / tr)) +
        (m0 - m0 / (1 - t1 * (Real.log (Real.cos alpha) / tr))) *
          Real.exp (-ts * (1 / t1 - Real.log (Real.cos alpha) / tr)) := by
  rw [tss_eq]; ring

/-! #### WASABI -/
theorem wasabi_eq (b0 rb1 c d offset tp b1nom gamma : ℝ) : wasabi b0 rb1 c d offset tp b1nom gamma =
    c - d * sq (Real.pi * (b1nom * rb1) * gamma * tp) *
      sq (sinc (tp * Real.sqrt (sq (b1nom * rb1 * gamma) + sq (offset - b0)))) := rfl
theorem wasabi_db0_eq (b0 rb1 c d offset tp b1nom gamma : ℝ) : wasabi_db0 b0 rb1 c d offset tp b1nom gamma =
    d * sq (Real.pi * (b1nom * rb1) * gamma * tp) *
      -(2 * sinc (tp * Real.sqrt (sq (b1nom * rb1 * gamma) + sq (offset - b0))) *
        (dsinc (tp * Real.sqrt (sq (b1nom * rb1 * gamma) + sq (offset - b0))) *
          (tp * (-((offset - b0) / Real.sqrt (sq (b1nom * rb1 * gamma) + sq (offset - b0))))))) := rfl
theorem wasabi_drb1_eq (b0 rb1 c d offset tp b1nom gamma : ℝ) : wasabi_drb1 b0 rb1 c d offset tp b1nom gamma =
    d * -(2 * (Real.pi * (b1nom * rb1) * gamma * tp) * (Real.pi * b1nom * gamma * tp) *
        sq (sinc (tp * Real.sqrt (sq (b1nom * rb1 * gamma) + sq (offset - b0)))) +
      sq (Real.pi * (b1nom * rb1) * gamma * tp) *
        (2 * sinc (tp * Real.sqrt (sq (b1nom * rb1 * gamma) + sq (offset - b0))) *
          (dsinc (tp * Real.sqrt (sq (b1nom * rb1 * gamma) + sq (offset - b0))) *
            (tp * (b1nom * rb1 * gamma * (b1nom * gamma) /
              Real.sqrt (sq (b1nom * rb1 * gamma) + sq (offset - b0))))))) := rfl
theorem wasabi_dc_eq_one (b0 rb1 c d offset tp b1nom gamma : ℝ) : wasabi_dc b0 rb1 c d offset tp b1nom gamma = 1 := rfl
theorem wasabi_dd_eq (b0 rb1 c d offset tp b1nom gamma : ℝ) : wasabi_dd b0 rb1 c d offset tp b1nom gamma =
    -(sq (Real.pi * (b1nom * rb1) * gamma * tp) *
      sq (sinc (tp * Real.sqrt (sq (b1nom * rb1 * gamma) + sq (offset - b0))))) := rfl

/-- `∂/∂b0` of the radicand `(b1·γ)² + (offset − b0)²` -/
theorem hasDerivAt_radicand_b0 (B offset b0 : ℝ) :
    HasDerivAt (fun b : ℝ => sq B + sq (offset - b)) (-(2 * (offset - b0))) b0 := by
  have hd : HasDerivAt (fun b : ℝ => offset - b) (-1) b0 := (hasDerivAt_id' b0).const_sub offset
  have H := (hd.fun_mul hd).const_add (sq B)
  exact H.congr_deriv (by ring)

/-- `∂/∂rb1` of the radicand `(b1nom·rb1·γ)² + (offset − b0)²` -/
theorem hasDerivAt_radicand_rb1 (b1nom gamma D rb1 : ℝ) :
    HasDerivAt (fun r : ℝ => sq (b1nom * r * gamma) + sq D) (2 * (b1nom * rb1 * gamma * (b1nom * gamma))) rb1 := by
  have hd : HasDerivAt (fun r : ℝ => b1nom * r * gamma) (b1nom * 1 * gamma) rb1 :=
    ((hasDerivAt_id' rb1).const_mul b1nom).mul_const gamma
  have H := (hd.fun_mul hd).add_const (sq D)
  exact H.congr_deriv (by ring)

theorem wasabi_hasDerivAt_b0 (b0 rb1 c d offset tp b1nom gamma : ℝ)
    (hx : tp * Real.sqrt ((b1nom * rb1 * gamma) ^ 2 + (offset - b0) ^ 2) ≠ 0) :
    HasDerivAt (fun b => wasabi b rb1 c d offset tp b1nom gamma) (wasabi_db0 b0 rb1 c d offset tp b1nom gamma) b0 := by
  have hx' : tp * Real.sqrt (sq (b1nom * rb1 * gamma) + sq (offset - b0)) ≠ 0 := by
    simpa only [sq_eq, pow_two] using hx
  have hS := hasDerivAt_sq_sinc_sqrt tp (hasDerivAt_radicand_b0 (b1nom * rb1 * gamma) offset b0) hx'
  have H := (hS.const_mul (d * sq (Real.pi * (b1nom * rb1) * gamma * tp))).const_sub c
  refine H.congr_deriv ?_
  rw [wasabi_db0_eq]
  ring

theorem wasabi_hasDerivAt_rb1 (b0 rb1 c d offset tp b1nom gamma : ℝ)
    (hx : tp * Real.sqrt ((b1nom * rb1 * gamma) ^ 2 + (offset - b0) ^ 2) ≠ 0) :
    HasDerivAt (fun r => wasabi b0 r c d offset tp b1nom gamma) (wasabi_drb1 b0 rb1 c d offset tp b1nom gamma) rb1 := by
  have hx' : tp * Real.sqrt (sq (b1nom * rb1 * gamma) + sq (offset - b0)) ≠ 0 := by
    simpa only [sq_eq, pow_two] using hx
  have hS := hasDerivAt_sq_sinc_sqrt tp (hasDerivAt_radicand_rb1 b1nom gamma (offset - b0) rb1) hx'
  have hw : HasDerivAt (fun r : ℝ => Real.pi * (b1nom * r) * gamma * tp) (Real.pi * (b1nom * 1) * gamma * tp) rb1 :=
    ((((hasDerivAt_id' rb1).const_mul b1nom).const_mul Real.pi).mul_const gamma).mul_const tp
  have H := (((hw.fun_mul hw).const_mul d).fun_mul hS).const_sub c
  refine H.congr_deriv ?_
  rw [wasabi_drb1_eq]
  simp only [sq_eq]
  ring

theorem wasabi_hasDerivAt_c (b0 rb1 c d offset tp b1nom gamma : ℝ) :
    HasDerivAt (fun v => wasabi b0 rb1 v d offset tp b1nom gamma) (wasabi_dc b0 rb1 c d offset tp b1nom gamma) c :=
  (hasDerivAt_id' c).sub_const _

theorem wasabi_hasDerivAt_d (b0 rb1 c d offset tp b1nom gamma : ℝ) :
    HasDerivAt (fun v => wasabi b0 rb1 c v offset tp b1nom gamma) (wasabi_dd b0 rb1 c d offset tp b1nom gamma) d := by
  have H := (((hasDerivAt_id' d).mul_const (sq (Real.pi * (b1nom * rb1) * gamma * tp))).mul_const
    (sq (sinc (tp * Real.sqrt (sq (b1nom * rb1 * gamma) + sq (offset - b0)))))).const_sub c
  refine H.congr_deriv ?_
  rw [wasabi_dd_eq]
  ring

/-! #### WASABITI -/
theorem wasabiti_eq (b0 rb1 t1 offset trec tp b1nom gamma : ℝ) : wasabiti b0 rb1 t1 offset trec tp b1nom gamma =
    (1 - Real.exp (-trec / t1)) * (1 - 2 * sq (Real.pi * (b1nom * rb1) * gamma * tp) *
      sq (sinc (tp * Real.sqrt (sq (b1nom * rb1 * gamma) + sq (offset - b0))))) := rfl
theorem wasabiti_db0_eq (b0 rb1 t1 offset trec tp b1nom gamma : ℝ) :
    wasabiti_db0 b0 rb1 t1 offset trec tp b1nom gamma =
    (1 - Real.exp (-trec / t1)) * -(2 * sq (Real.pi * (b1nom * rb1) * gamma * tp) *
      (2 * sinc (tp * Real.sqrt (sq (b1nom * rb1 * gamma) + sq (offset - b0))) *
        (dsinc (tp * Real.sqrt (sq (b1nom * rb1 * gamma) + sq (offset - b0))) *
          (tp * (-((offset - b0) / Real.sqrt (sq (b1nom * rb1 * gamma) + sq (offset - b0)))))))) := rfl
theorem wasabiti_drb1_eq (b0 rb1 t1 offset trec tp b1nom gamma : ℝ) :
    wasabiti_drb1 b0 rb1 t1 offset trec tp b1nom gamma =
    (1 - Real.exp (-trec / t1)) * -(2 * (2 * (Real.pi * (b1nom * rb1) * gamma * tp) * (Real.pi * b1nom * gamma * tp) *
        sq (sinc (tp * Real.sqrt (sq (b1nom * rb1 * gamma) + sq (offset - b0)))) +
      sq (Real.pi * (b1nom * rb1) * gamma * tp) *
        (2 * sinc (tp * Real.sqrt (sq (b1nom * rb1 * gamma) + sq (offset - b0))) *
          (dsinc (tp * Real.sqrt (sq (b1nom * rb1 * gamma) + sq (offset - b0))) *
            (tp * (b1nom * rb1 * gamma * (b1nom * gamma) /
              Real.sqrt (sq (b1nom * rb1 * gamma) + sq (offset - b0)))))))) := rfl
theorem wasabiti_dt1_eq (b0 rb1 t1 offset trec tp b1nom gamma : ℝ) :
    wasabiti_dt1 b0 rb1 t1 offset trec tp b1nom gamma =
    -(Real.exp (-trec / t1) * (trec / (t1 * t1))) * (1 - 2 * sq (Real.pi * (b1nom * rb1) * gamma * tp) *
      sq (sinc (tp * Real.sqrt (sq (b1nom * rb1 * gamma) + sq (offset - b0))))) := rfl

theorem wasabiti_hasDerivAt_b0 (b0 rb1 t1 offset trec tp b1nom gamma : ℝ)
    (hx : tp * Real.sqrt ((b1nom * rb1 * gamma) ^ 2 + (offset - b0) ^ 2) ≠ 0) :
    HasDerivAt (fun b => wasabiti b rb1 t1 offset trec tp b1nom gamma)
      (wasabiti_db0 b0 rb1 t1 offset trec tp b1nom gamma) b0 := by
  have hx' : tp * Real.sqrt (sq (b1nom * rb1 * gamma) + sq (offset - b0)) ≠ 0 := by
    simpa only [sq_eq, pow_two] using hx
  have hS := hasDerivAt_sq_sinc_sqrt tp (hasDerivAt_radicand_b0 (b1nom * rb1 * gamma) offset b0) hx'
  have H := ((hS.const_mul (2 * sq (Real.pi * (b1nom * rb1) * gamma * tp))).const_sub 1).const_mul
    (1 - Real.exp (-trec / t1))
  refine H.congr_deriv ?_
  rw [wasabiti_db0_eq]
  ring

theorem wasabiti_hasDerivAt_rb1 (b0 rb1 t1 offset trec tp b1nom gamma : ℝ)
    (hx : tp * Real.sqrt ((b1nom * rb1 * gamma) ^ 2 + (offset - b0) ^ 2) ≠ 0) :
    HasDerivAt (fun r => wasabiti b0 r t1 offset trec tp b1nom gamma)
      (wasabiti_drb1 b0 rb1 t1 offset trec tp b1nom gamma) rb1 := by
  have hx' : tp * Real.sqrt (sq (b1nom * rb1 * gamma) + sq (offset - b0)) ≠ 0 := by
    simpa only [sq_eq, pow_two] using hx
  have hS := hasDerivAt_sq_sinc_sqrt tp (hasDerivAt_radicand_rb1 b1nom gamma (offset - b0) rb1) hx'
  have hw : HasDerivAt (fun r : ℝ => Real.pi * (b1nom * r) * gamma * tp) (Real.pi * (b1nom * 1) * gamma * tp) rb1 :=
    ((((hasDerivAt_id' rb1).const_mul b1nom).const_mul Real.pi).mul_const gamma).mul_const tp
  have H := ((((hw.fun_mul hw).const_mul 2).fun_mul hS).const_sub 1).const_mul (1 - Real.exp (-trec / t1))
  refine H.congr_deriv ?_
  rw [wasabiti_drb1_eq]
  simp only [sq_eq]
  ring

theorem wasabiti_hasDerivAt_t1 (b0 rb1 t1 offset trec tp b1nom gamma : ℝ) (h : t1 ≠ 0) :
    HasDerivAt (fun t => wasabiti b0 rb1 t offset trec tp b1nom gamma)
      (wasabiti_dt1 b0 rb1 t1 offset trec tp b1nom gamma) t1 := by
  have H := (((hasDerivAt_const_div (-trec) t1 h).exp).const_sub 1).mul_const
    (1 - 2 * sq (Real.pi * (b1nom * rb1) * gamma * tp) *
      sq (sinc (tp * Real.sqrt (sq (b1nom * rb1 * gamma) + sq (offset - b0)))))
  refine H.congr_deriv ?_
  rw [wasabiti_dt1_eq]
  ring

end M
