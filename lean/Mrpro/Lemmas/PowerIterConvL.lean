import Mrpro.Lemmas.PowerIterL
import Mathlib.Algebra.Module.LinearMap.End
import Mathlib.Algebra.BigOperators.Fin
import Mathlib.Algebra.BigOperators.Field
import Mathlib.Analysis.SpecificLimits.Basic
import Mathlib.Analysis.SpecialFunctions.Sqrt
import Mathlib.Topology.Algebra.Monoid
import Mathlib.Tactic.FinCases
import Mathlib.Data.Fin.VecNotation
/-! Convergence of the power-iteration estimates (`powerRun`) to `√λ_max = ‖A‖` for generic start
vectors.  The eigen-decomposition of the start vector is a hypothesis (no spectral theorem).

* `powerRun_zero` : budget 0 returns 0.
* `powerRun_closed_form` : with the rule that never stops, the estimate returned at budget `n + 1` is
  `√(⟨Gⁿ v₀, Gⁿ⁺¹ v₀⟩ / ⟨Gⁿ v₀, Gⁿ v₀⟩)`.
* `powerRun_eigen_form` : … `= √((∑ λᵢ^(2n+1) cᵢ²) / (∑ λᵢ^(2n) cᵢ²))` for `v₀ = ∑ cᵢ eᵢ`.
* `estimates_tendsto_norm` : the returned estimate tends to `√λ₀` when `λ₀` is strictly dominant and `c₀ ≠ 0`.
* `norm_on_span` : `√λ₀` is the operator norm of `A` on the span of the `eᵢ`. -/
namespace M
open Filter Topology
variable {V W : Type} [AddCommGroup V] [Module ℝ V] [AddCommGroup W] [Module ℝ W]

/-- `v / ‖v‖` as the model computes it (`1 / 0 = 0`) -/
noncomputable def nrmz (B : V →ₗ[ℝ] V →ₗ[ℝ] ℝ) (x : V) : V := (1 / Real.sqrt (B x x)) • x

theorem nrmz_smul (B : V →ₗ[ℝ] V →ₗ[ℝ] ℝ) (a : ℝ) (ha : 0 < a) (x : V) :
    nrmz B (a • x) = nrmz B x := by
  have key : Real.sqrt (B (a • x) (a • x)) = a * Real.sqrt (B x x) := by
    simp only [map_smul, LinearMap.smul_apply, smul_eq_mul]
    rw [← mul_assoc, Real.sqrt_mul (mul_self_nonneg a), Real.sqrt_mul_self ha.le]
  unfold nrmz
  rw [key, smul_smul]
  congr 1
  rw [one_div, mul_inv, mul_comm a⁻¹, mul_assoc, inv_mul_cancel₀ ha.ne', mul_one, one_div]

/-! ### The loop with the rule that never stops -/

theorem powerLoop_never (B : V →ₗ[ℝ] V →ₗ[ℝ] ℝ) (G : V →ₗ[ℝ] V) :
    ∀ (fuel : ℕ) (v : V) (old last : ℝ) (cb : List ℝ),
      (powerLoop (realOps' B) Real.sqrt (fun v => G v) (fun _ _ => false) (fuel + 1) v old last cb).1
        = Real.sqrt (B ((fun x => nrmz B (G x))^[fuel] v) (G ((fun x => nrmz B (G x))^[fuel] v))) := by
  intro fuel
  induction fuel with
  | zero =>
    intro v old last cb
    simp [powerLoop]
  | succ n ih =>
    intro v old last cb
    rw [powerLoop]
    simp only [Bool.false_eq_true, if_false]
    rw [Function.iterate_succ_apply]
    exact ih _ _ _ _

theorem iterate_nrmz (B : V →ₗ[ℝ] V →ₗ[ℝ] ℝ) (pos : ∀ v, v ≠ 0 → 0 < B v v) (G : V →ₗ[ℝ] V) (x : V) :
    ∀ k : ℕ, (fun y => nrmz B (G y))^[k] (nrmz B x) = nrmz B ((G ^ k) x) := by
  intro k
  induction k with
  | zero => simp
  | succ k ih =>
    rw [Function.iterate_succ_apply', ih, pow_succ', Module.End.mul_apply]
    generalize (G ^ k) x = y
    by_cases hy : y = 0
    · subst hy
      simp [nrmz]
    · have hq : 0 < 1 / Real.sqrt (B y y) := one_div_pos.mpr (Real.sqrt_pos.mpr (pos y hy))
      show nrmz B (G ((1 / Real.sqrt (B y y)) • y)) = _
      rw [map_smul, nrmz_smul B _ hq]

theorem powerRun_zero (B : V →ₗ[ℝ] V →ₗ[ℝ] ℝ) (G : V →ₗ[ℝ] V) (stop : ℝ → ℝ → Bool) (v0 : V) :
    (powerRun (realOps' B) Real.sqrt (fun v => G v) stop v0 0).1 = 0 := by
  simp [powerRun, powerLoop]

/-- closed form of the returned estimate after `n + 1` iterations (`n` normalisations) -/
theorem powerRun_closed_form (B : V →ₗ[ℝ] V →ₗ[ℝ] ℝ) (pos : ∀ v, v ≠ 0 → 0 < B v v) (G : V →ₗ[ℝ] V)
    (v0 : V) (n : ℕ) :
    (powerRun (realOps' B) Real.sqrt (fun v => G v) (fun _ _ => false) v0 (n + 1)).1
      = Real.sqrt (B ((G ^ n) v0) ((G ^ (n + 1)) v0) / B ((G ^ n) v0) ((G ^ n) v0)) := by
  show (powerLoop (realOps' B) Real.sqrt (fun v => G v) (fun _ _ => false) (n + 1) (nrmz B v0) 0 0 []).1 = _
  rw [powerLoop_never, iterate_nrmz B pos, pow_succ', Module.End.mul_apply]
  generalize (G ^ n) v0 = y
  have hb : 0 ≤ B y y := by
    by_cases hy : y = 0
    · simp [hy]
    · exact (pos y hy).le
  congr 1
  unfold nrmz
  simp only [map_smul, LinearMap.smul_apply, smul_eq_mul]
  have hsb : Real.sqrt (B y y) * Real.sqrt (B y y) = B y y := Real.mul_self_sqrt hb
  generalize B y (G y) = a at *
  generalize B y y = b at *
  generalize Real.sqrt b = q at *
  rw [← hsb]
  ring

/-- the same, indexed by the budget `n ≥ 1` -/
theorem powerRun_closed_form' (B : V →ₗ[ℝ] V →ₗ[ℝ] ℝ) (pos : ∀ v, v ≠ 0 → 0 < B v v) (G : V →ₗ[ℝ] V)
    (v0 : V) (n : ℕ) (hn : 1 ≤ n) :
    (powerRun (realOps' B) Real.sqrt (fun v => G v) (fun _ _ => false) v0 n).1
      = Real.sqrt (B ((G ^ (n - 1)) v0) ((G ^ n) v0) / B ((G ^ (n - 1)) v0) ((G ^ (n - 1)) v0)) := by
  obtain ⟨k, rfl⟩ : ∃ k, n = k + 1 := ⟨n - 1, by omega⟩
  simpa using powerRun_closed_form B pos G v0 k

/-! ### Expansion in an orthonormal eigenbasis -/

theorem pow_eigen {m : ℕ} (G : V →ₗ[ℝ] V) (e : Fin (m + 1) → V) (lam : Fin (m + 1) → ℝ)
    (heig : ∀ i, G (e i) = lam i • e i) (c : Fin (m + 1) → ℝ) (k : ℕ) :
    (G ^ k) (∑ i, c i • e i) = ∑ i, (lam i ^ k * c i) • e i := by
  induction k with
  | zero => simp
  | succ k ih =>
    rw [pow_succ', Module.End.mul_apply, ih, map_sum]
    refine Finset.sum_congr rfl fun i _ => ?_
    rw [map_smul, heig, smul_smul]
    congr 1
    ring

theorem B_expand {m : ℕ} (B : V →ₗ[ℝ] V →ₗ[ℝ] ℝ) (e : Fin (m + 1) → V)
    (horth : ∀ i j, B (e i) (e j) = if i = j then 1 else 0) (a b : Fin (m + 1) → ℝ) :
    B (∑ i, a i • e i) (∑ j, b j • e j) = ∑ i, a i * b i := by
  simp only [map_sum, map_smul, LinearMap.sum_apply, LinearMap.smul_apply, smul_eq_mul, horth,
    mul_ite, mul_one, mul_zero]
  simp [mul_comm]

theorem powerRun_eigen_form {m : ℕ} (B : V →ₗ[ℝ] V →ₗ[ℝ] ℝ) (pos : ∀ v, v ≠ 0 → 0 < B v v)
    (G : V →ₗ[ℝ] V) (e : Fin (m + 1) → V) (lam : Fin (m + 1) → ℝ)
    (heig : ∀ i, G (e i) = lam i • e i) (horth : ∀ i j, B (e i) (e j) = if i = j then 1 else 0)
    (c : Fin (m + 1) → ℝ) (n : ℕ) :
    (powerRun (realOps' B) Real.sqrt (fun v => G v) (fun _ _ => false) (∑ i, c i • e i) (n + 1)).1
      = Real.sqrt ((∑ i, lam i ^ (2 * n + 1) * c i ^ 2) / (∑ i, lam i ^ (2 * n) * c i ^ 2)) := by
  rw [powerRun_closed_form B pos, pow_eigen G e lam heig, pow_eigen G e lam heig,
    B_expand B e horth, B_expand B e horth]
  congr 2
  · refine Finset.sum_congr rfl fun i _ => ?_
    ring
  · refine Finset.sum_congr rfl fun i _ => ?_
    ring

/-! ### The limit of the Rayleigh quotients -/

theorem ratio_tendsto {m : ℕ} (lam c : Fin (m + 1) → ℝ) (h0 : 0 < lam 0) (hnn : ∀ i, 0 ≤ lam i)
    (hdom : ∀ i, i ≠ 0 → lam i < lam 0) (hc : c 0 ≠ 0) :
    Tendsto (fun n : ℕ => (∑ i, lam i ^ (2 * n + 1) * c i ^ 2) / (∑ i, lam i ^ (2 * n) * c i ^ 2))
      atTop (𝓝 (lam 0)) := by
  have hpow : ∀ i, i ≠ 0 → Tendsto (fun n : ℕ => (lam i / lam 0) ^ (2 * n)) atTop (𝓝 0) := by
    intro i hi
    have hr0 : 0 ≤ lam i / lam 0 := div_nonneg (hnn i) h0.le
    have hr1 : lam i / lam 0 < 1 := (div_lt_one h0).mpr (hdom i hi)
    have h2 : (lam i / lam 0) ^ 2 < 1 := pow_lt_one₀ hr0 hr1 (by norm_num)
    have := tendsto_pow_atTop_nhds_zero_of_lt_one (sq_nonneg (lam i / lam 0)) h2
    simpa [pow_mul] using this
  have hterm : ∀ (w : Fin (m + 1) → ℝ) (i : Fin (m + 1)),
      Tendsto (fun n : ℕ => w i * (lam i / lam 0) ^ (2 * n)) atTop
        (𝓝 (if i = 0 then w 0 else 0)) := by
    intro w i
    by_cases hi : i = 0
    · subst hi
      simp [div_self h0.ne']
    · simpa [hi] using (hpow i hi).const_mul (w i)
  have hsum : ∀ w : Fin (m + 1) → ℝ,
      Tendsto (fun n : ℕ => ∑ i, w i * (lam i / lam 0) ^ (2 * n)) atTop (𝓝 (w 0)) := by
    intro w
    have := tendsto_finsetSum (Finset.univ : Finset (Fin (m + 1))) (fun i _ => hterm w i)
    simpa using this
  have hN := hsum (fun i => lam i * c i ^ 2)
  have hD := hsum (fun i => c i ^ 2)
  have hc2 : c 0 ^ 2 ≠ 0 := pow_ne_zero 2 hc
  have hlim := hN.div hD hc2
  have e0 : lam 0 * c 0 ^ 2 / c 0 ^ 2 = lam 0 := by field_simp
  rw [e0] at hlim
  refine hlim.congr fun n => ?_
  have hl : lam 0 ^ (2 * n) ≠ 0 := pow_ne_zero _ h0.ne'
  have hNn : ∑ i, lam i * c i ^ 2 * (lam i / lam 0) ^ (2 * n)
      = (∑ i, lam i ^ (2 * n + 1) * c i ^ 2) / lam 0 ^ (2 * n) := by
    rw [Finset.sum_div]
    refine Finset.sum_congr rfl fun i _ => ?_
    rw [div_pow]
    field_simp
    ring
  have hDn : ∑ i, c i ^ 2 * (lam i / lam 0) ^ (2 * n)
      = (∑ i, lam i ^ (2 * n) * c i ^ 2) / lam 0 ^ (2 * n) := by
    rw [Finset.sum_div]
    refine Finset.sum_congr rfl fun i _ => ?_
    rw [div_pow]
    field_simp
  simp only [Pi.div_apply]
  rw [hNn, hDn, div_div_div_cancel_right₀ hl]

section
variable (B : V →ₗ[ℝ] V →ₗ[ℝ] ℝ) (B' : W →ₗ[ℝ] W →ₗ[ℝ] ℝ) (A : V →ₗ[ℝ] W) (G : V →ₗ[ℝ] V)
  (symm : ∀ u v, B u v = B v u) (pos : ∀ v, v ≠ 0 → 0 < B v v)
  (symm' : ∀ u v, B' u v = B' v u) (pos' : ∀ w, w ≠ 0 → 0 < B' w w)
  (gram : ∀ u v, B u (G v) = B' (A u) (A v)) (inj : ∀ v, v ≠ 0 → A v ≠ 0)
include symm pos symm' pos' gram inj
set_option linter.unusedSectionVars false

/-- eigenvalues of `G = Aᴴ A` with `A` injective are positive -/
theorem eigenvalue_pos (x : V) (l : ℝ) (hx : B x x = 1) (hG : G x = l • x) : 0 < l := by
  have hx0 : x ≠ 0 := by
    rintro rfl
    simp at hx
  have h := pos' _ (inj x hx0)
  rw [← gram, hG, map_smul, smul_eq_mul, hx, mul_one] at h
  exact h

/-- **Convergence for generic start vectors.**  If the start vector is a combination of finitely many
`B`-orthonormal eigenvectors of `G` whose first eigenvalue is strictly dominant and has a non-zero
coefficient, the estimate returned at budget `n` (rule that never stops) tends to `√λ₀` for `n → ∞`. -/
theorem estimates_tendsto_norm {m : ℕ} (e : Fin (m + 1) → V) (lam c : Fin (m + 1) → ℝ)
    (heig : ∀ i, G (e i) = lam i • e i)
    (horth : ∀ i j, B (e i) (e j) = if i = j then 1 else 0)
    (hdom : ∀ i, i ≠ 0 → lam i < lam 0)
    (v0 : V) (hv0 : v0 = ∑ i, c i • e i) (hc : c 0 ≠ 0) :
    Tendsto (fun n => (powerRun (realOps' B) Real.sqrt (fun v => G v) (fun _ _ => false) v0 n).1)
      atTop (𝓝 (Real.sqrt (lam 0))) := by
  have hlpos : ∀ i, 0 < lam i := fun i =>
    eigenvalue_pos B B' A G symm pos symm' pos' gram inj (e i) (lam i) (by simp [horth]) (heig i)
  rw [← tendsto_add_atTop_iff_nat 1]
  subst hv0
  simp only [powerRun_eigen_form B pos G e lam heig horth c]
  exact (Real.continuous_sqrt.tendsto _).comp
    (ratio_tendsto lam c (hlpos 0) (fun i => (hlpos i).le) hdom hc)

/-- `√λ₀` is the operator norm of `A` on the span of the eigenvectors: bound … -/
theorem norm_on_span {m : ℕ} (e : Fin (m + 1) → V) (lam : Fin (m + 1) → ℝ)
    (heig : ∀ i, G (e i) = lam i • e i)
    (horth : ∀ i j, B (e i) (e j) = if i = j then 1 else 0)
    (hdom : ∀ i, i ≠ 0 → lam i < lam 0) (d : Fin (m + 1) → ℝ) :
    B' (A (∑ i, d i • e i)) (A (∑ i, d i • e i)) ≤ lam 0 * B (∑ i, d i • e i) (∑ i, d i • e i) := by
  have h1 := pow_eigen G e lam heig d 1
  rw [pow_one] at h1
  rw [← gram, h1, B_expand B e horth, B_expand B e horth, Finset.mul_sum]
  refine Finset.sum_le_sum fun i _ => ?_
  have hle : lam i ≤ lam 0 := by
    by_cases hi : i = 0
    · rw [hi]
    · exact (hdom i hi).le
  nlinarith [mul_self_nonneg (d i)]

/-- … and the bound is attained at `e 0` -/
theorem norm_on_span_attained {m : ℕ} (e : Fin (m + 1) → V) (lam : Fin (m + 1) → ℝ)
    (heig : ∀ i, G (e i) = lam i • e i) :
    B' (A (e 0)) (A (e 0)) = lam 0 * B (e 0) (e 0) := by
  rw [← gram, heig, map_smul, smul_eq_mul]
end

/-! ### Non-vacuity: `V = W = ℝ × ℝ` with the dot product, `A = diag(2, 1)`, `G = Aᴴ A = diag(4, 1)`,
standard basis, `v₀ = (1, 1)`; the estimates tend to `√4 = ‖A‖`. -/
section Example

noncomputable def exB : (ℝ × ℝ) →ₗ[ℝ] (ℝ × ℝ) →ₗ[ℝ] ℝ :=
  LinearMap.mk₂ ℝ (fun u v => u.1 * v.1 + u.2 * v.2)
    (by intros; simp; ring) (by intros; simp; ring) (by intros; simp; ring) (by intros; simp; ring)

noncomputable def exA : (ℝ × ℝ) →ₗ[ℝ] (ℝ × ℝ) where
  toFun u := (2 * u.1, u.2)
  map_add' := by intros; simp [mul_add]
  map_smul' := by intros; simp [mul_left_comm]

noncomputable def exG : (ℝ × ℝ) →ₗ[ℝ] (ℝ × ℝ) where
  toFun u := (4 * u.1, u.2)
  map_add' := by intros; simp [mul_add]
  map_smul' := by intros; simp [mul_left_comm]

theorem exB_apply (u v : ℝ × ℝ) : exB u v = u.1 * v.1 + u.2 * v.2 := rfl
theorem exA_apply (u : ℝ × ℝ) : exA u = (2 * u.1, u.2) := rfl
theorem exG_apply (u : ℝ × ℝ) : exG u = (4 * u.1, u.2) := rfl

theorem exB_pos (v : ℝ × ℝ) (hv : v ≠ 0) : 0 < exB v v := by
  rw [exB_apply]
  have h : v.1 ≠ 0 ∨ v.2 ≠ 0 := by
    by_contra h
    rw [not_or, not_not, not_not] at h
    exact hv (Prod.ext h.1 h.2)
  rcases h with h | h
  · nlinarith [mul_self_pos.mpr h, mul_self_nonneg v.2]
  · nlinarith [mul_self_pos.mpr h, mul_self_nonneg v.1]

example :
    Tendsto (fun n => (powerRun (realOps' exB) Real.sqrt (fun v => exG v) (fun _ _ => false)
      ((1, 1) : ℝ × ℝ) n).1) atTop (𝓝 (Real.sqrt 4)) := by
  have h := estimates_tendsto_norm (m := 1) exB exB exA exG
    (fun u v => by simp only [exB_apply]; ring) exB_pos
    (fun u v => by simp only [exB_apply]; ring) exB_pos
    (fun u v => by simp only [exB_apply, exA_apply, exG_apply]; ring)
    (fun v hv h => by
      apply hv
      rw [exA_apply, Prod.mk_eq_zero] at h
      exact Prod.ext (by simpa using h.1) h.2)
    ![(1, 0), (0, 1)] ![4, 1] ![1, 1]
    (by intro i; fin_cases i <;> simp [exG_apply])
    (by intro i j; fin_cases i <;> fin_cases j <;> simp [exB_apply])
    (by intro i hi; fin_cases i <;> simp at hi ⊢)
    (1, 1) (by simp [Fin.sum_univ_two]) (by simp)
  simpa using h

end Example

end M
