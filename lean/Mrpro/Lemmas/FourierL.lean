import Mrpro.Model.Fourier
import Mrpro.Lemmas.Basic
import Mrpro.Lemmas.Adjoint
import Mrpro.Lemmas.Action
import Mathlib.Data.Int.ModEq
import Mathlib.Tactic.NormNum
/-! Proofs for `Mrpro/Props/C03.lean`. -/
set_option linter.unusedSectionVars false
namespace M
open Finset
variable {K : Type} [CommRing K] [StarRing K]

/-- the congruence behind `fftshift ∘ dft ∘ ifftshift`: row index `(k - n/2) mod n`, column index
`r` with data taken at `(r + n/2) mod n` is the same residue as `(k - n/2)·(r' - n/2)`. -/
theorem twiddle_cong (n k r : Nat) :
    ((((k + n - n / 2) % n * r) % n : Nat) : Int) % (n : Int)
      = (((k : Int) - (n / 2 : Nat)) * ((((r + n / 2) % n : Nat) : Int) - (n / 2 : Nat))) % (n : Int) := by
  have hle : n / 2 ≤ k + n := by omega
  have e1 : (((k + n - n / 2) % n : Nat) : Int) ≡ (k : Int) - (n / 2 : Nat) [ZMOD n] := by
    rw [Int.natCast_mod, Nat.cast_sub hle]
    refine (Int.mod_modEq _ _).trans ?_
    rw [Int.modEq_iff_dvd]
    exact ⟨-1, by push_cast; ring⟩
  have e2 : (r : Int) ≡ (((r + n / 2) % n : Nat) : Int) - (n / 2 : Nat) [ZMOD n] := by
    rw [Int.natCast_mod]
    have : ((r + n / 2 : Nat) : Int) % (n : Int) ≡ (r : Int) + (n / 2 : Nat) [ZMOD n] := by
      rw [Nat.cast_add]; exact Int.mod_modEq _ _
    have h2 := this.sub (Int.ModEq.refl ((n / 2 : Nat) : Int))
    rw [add_sub_cancel_right] at h2
    exact h2.symm
  have e3 := e1.mul e2
  rw [Int.natCast_mod, Nat.cast_mul]
  exact (Int.mod_modEq _ _).trans e3

theorem centredDft_eq_spec (n : Nat) (c : K) (wI : Int → K)
    (hper : ∀ a b : Int, a % (n : Int) = b % (n : Int) → wI a = wI b) (x : Nat → K) (k : Nat) (hk : k < n) :
    centredDft n c (fun t => wI t) x k = centredDftSpec n c wI x k := by
  have _ := hk
  unfold centredDft centredDftSpec fftshift dft ifftshift
  simp only [sumTo_eq]
  congr 1
  refine Finset.sum_nbij' (fun r => (r + n / 2) % n) (fun r => (r + n - n / 2) % n) ?_ ?_ ?_ ?_ ?_
  · intro i hi; rw [Finset.mem_range] at hi ⊢; exact Nat.mod_lt _ (by omega)
  · intro i hi; rw [Finset.mem_range] at hi ⊢; exact Nat.mod_lt _ (by omega)
  · intro i hi; rw [Finset.mem_range] at hi; exact unshift_shift hi
  · intro i hi; rw [Finset.mem_range] at hi; exact shift_unshift hi
  · intro i _
    rw [hper _ _ (twiddle_cong n k i)]

theorem padded_dft_eq_encoding (nrec nenc : Nat) (c : K) (wI : Int → K) (x : Nat → K) (k : Nat) :
    centredDftSpec nenc c wI (padCrop nrec nenc x) k
      = c * sumTo nrec (fun r =>
          if 0 ≤ (r : Int) + padShift nrec nenc ∧ (r : Int) + padShift nrec nenc < nenc
          then wI (((k : Int) - (nenc / 2 : Nat)) * ((r : Int) - (nrec / 2 : Nat))) * x r else 0) := by
  unfold centredDftSpec
  simp only [sumTo_eq]
  congr 1
  have L : ∀ j ∈ range nenc,
      wI (((k : Int) - (nenc / 2 : Nat)) * ((j : Int) - (nenc / 2 : Nat))) * padCrop nrec nenc x j
      = ∑ r ∈ range nrec, if (j : Int) = r + padShift nrec nenc
          then wI (((k : Int) - (nenc / 2 : Nat)) * ((r : Int) - (nrec / 2 : Nat))) * x r else 0 := by
    intro j hj
    unfold padCrop padCropWith
    simp only
    split_ifs with hc
    · rw [Finset.sum_eq_single (((j:Int) - padShift nrec nenc).toNat)]
      · rw [if_pos (by omega)]
        congr 2
        unfold padShift at hc ⊢
        congr 1
        omega
      · intro i _ hi; rw [if_neg (by omega)]
      · intro hn; exfalso; apply hn; rw [Finset.mem_range]; omega
    · rw [mul_zero]; symm; apply Finset.sum_eq_zero
      intro i hi; rw [Finset.mem_range] at hi; rw [if_neg (by omega)]
  have R : ∀ r ∈ range nrec,
      (if 0 ≤ (r : Int) + padShift nrec nenc ∧ (r : Int) + padShift nrec nenc < nenc
        then wI (((k : Int) - (nenc / 2 : Nat)) * ((r : Int) - (nrec / 2 : Nat))) * x r else 0)
      = ∑ j ∈ range nenc, if (j : Int) = r + padShift nrec nenc
          then wI (((k : Int) - (nenc / 2 : Nat)) * ((r : Int) - (nrec / 2 : Nat))) * x r else 0 := by
    intro r hr
    split_ifs with hc
    · rw [Finset.sum_eq_single (((r:Int) + padShift nrec nenc).toNat)]
      · rw [if_pos (by omega)]
      · intro j _ hj; rw [if_neg (by omega)]
      · intro hn; exfalso; apply hn; rw [Finset.mem_range]; omega
    · symm; apply Finset.sum_eq_zero
      intro j hj; rw [Finset.mem_range] at hj; rw [if_neg (by omega)]
  rw [Finset.sum_congr rfl L, Finset.sum_congr rfl R, Finset.sum_comm]

theorem cartesian_path_eq_nudft (nrec nenc : Nat) (h : nrec ≤ nenc) (c : K) (wI : Int → K)
    (hper : ∀ a b : Int, a % (nenc : Int) = b % (nenc : Int) → wI a = wI b)
    (x : Nat → K) (κ : Int) (j : Nat) (hj : axisIdx nenc κ = some j) :
    centredDft nenc c (fun t => wI t) (padCrop nrec nenc x) j
      = c * sumTo nrec (fun r => wI (κ * ((r : Int) - (nrec / 2 : Nat))) * x r) := by
  obtain ⟨hj1, hj2⟩ := axisIdx_some _ _ _ hj
  rw [centredDft_eq_spec nenc c wI hper _ j hj2, padded_dft_eq_encoding]
  simp only [sumTo_eq]
  congr 1
  apply Finset.sum_congr rfl
  intro r hr
  rw [Finset.mem_range] at hr
  have hκ : (j : Int) - (nenc / 2 : Nat) = κ := by omega
  rw [if_pos (by unfold padShift; omega), hκ]

/-- the inverse path `fftshift ∘ idft ∘ ifftshift` is the conjugate-kernel sum with both index
origins at `n/2` -/
theorem centredIdft_eq_spec (n : Nat) (c : K) (wI : Int → K)
    (hper : ∀ a b : Int, a % (n : Int) = b % (n : Int) → wI a = wI b) (y : Nat → K) (r : Nat) :
    centredIdft n c (fun t => wI t) y r
      = c * ∑ k ∈ range n,
          star (wI (((k : Int) - (n / 2 : Nat)) * ((r : Int) - (n / 2 : Nat)))) * y k := by
  unfold centredIdft fftshift idft ifftshift
  simp only [sumTo_eq, conj_eq_star]
  congr 1
  refine Finset.sum_nbij' (fun k => (k + n / 2) % n) (fun k => (k + n - n / 2) % n) ?_ ?_ ?_ ?_ ?_
  · intro i hi; rw [Finset.mem_range] at hi ⊢; exact Nat.mod_lt _ (by omega)
  · intro i hi; rw [Finset.mem_range] at hi ⊢; exact Nat.mod_lt _ (by omega)
  · intro i hi; rw [Finset.mem_range] at hi; exact unshift_shift hi
  · intro i hi; rw [Finset.mem_range] at hi; exact shift_unshift hi
  · intro i _
    have e := twiddle_cong n r i
    rw [Nat.mul_comm ((r + n - n / 2) % n) i, mul_comm ((r : Int) - _)] at e
    rw [hper _ _ e]

omit [StarRing K] in
/-- the geometric sum over a full period, for a difference of two in-range indices -/
theorem geom_sum_diff (n : Nat) (wI : Int → K) (hone : wI 0 = 1)
    (hgeom : ∀ d : Int, d % (n : Int) ≠ 0 → (Finset.range n).sum (fun k => wI ((k : Int) * d)) = 0)
    (r r' : Nat) (hr : r < n) (hr' : r' < n) :
    ∑ k ∈ range n, wI ((k : Int) * ((r' : Int) - (r : Int))) = if r' = r then (n : K) else 0 := by
  split_ifs with h
  · subst h
    simp only [sub_self, mul_zero, hone, Finset.sum_const, Finset.card_range, nsmul_eq_mul, mul_one]
  · apply hgeom
    intro h0
    have h1 := Int.eq_zero_of_abs_lt_dvd (Int.dvd_of_emod_eq_zero h0) (by rw [abs_lt]; omega)
    omega

theorem centredDft_unitary (n : Nat) (c₁ c₂ : K) (hc : c₁ * c₂ * (n : K) = 1) (wI : Int → K)
    (hper : ∀ a b : Int, a % (n : Int) = b % (n : Int) → wI a = wI b)
    (hmul : ∀ a b : Int, wI (a + b) = wI a * wI b) (hstar : ∀ a : Int, star (wI a) = wI (-a))
    (hone : wI 0 = 1)
    (hgeom : ∀ d : Int, d % (n : Int) ≠ 0 → (Finset.range n).sum (fun k => wI ((k : Int) * d)) = 0)
    (x : Nat → K) (r : Nat) (hr : r < n) :
    centredIdft n c₂ (fun t => wI t) (centredDft n c₁ (fun t => wI t) x) r = x r := by
  rw [centredIdft_eq_spec n c₂ wI hper]
  have E : ∀ k ∈ range n,
      star (wI (((k : Int) - (n / 2 : Nat)) * ((r : Int) - (n / 2 : Nat))))
          * centredDft n c₁ (fun t => wI t) x k
        = ∑ r' ∈ range n, (c₁ * (wI (-((n / 2 : Nat) : Int) * ((r' : Int) - (r : Int))) * x r'))
            * wI ((k : Int) * ((r' : Int) - (r : Int))) := by
    intro k hk
    rw [centredDft_eq_spec n c₁ wI hper x k (Finset.mem_range.mp hk)]
    unfold centredDftSpec
    rw [sumTo_eq, Finset.mul_sum, Finset.mul_sum]
    apply Finset.sum_congr rfl
    intro r' _
    have e : star (wI (((k : Int) - (n / 2 : Nat)) * ((r : Int) - (n / 2 : Nat))))
          * wI (((k : Int) - (n / 2 : Nat)) * ((r' : Int) - (n / 2 : Nat)))
        = wI (-((n / 2 : Nat) : Int) * ((r' : Int) - (r : Int)))
          * wI ((k : Int) * ((r' : Int) - (r : Int))) := by
      rw [hstar, ← hmul, ← hmul]
      congr 1
      ring
    calc star (wI (((k : Int) - (n / 2 : Nat)) * ((r : Int) - (n / 2 : Nat))))
          * (c₁ * (wI (((k : Int) - (n / 2 : Nat)) * ((r' : Int) - (n / 2 : Nat))) * x r'))
        = c₁ * x r' * (star (wI (((k : Int) - (n / 2 : Nat)) * ((r : Int) - (n / 2 : Nat))))
          * wI (((k : Int) - (n / 2 : Nat)) * ((r' : Int) - (n / 2 : Nat)))) := by ring
      _ = _ := by rw [e]; ring
  rw [Finset.sum_congr rfl E, Finset.sum_comm]
  have G : ∀ r' ∈ range n,
      ∑ k ∈ range n, (c₁ * (wI (-((n / 2 : Nat) : Int) * ((r' : Int) - (r : Int))) * x r'))
            * wI ((k : Int) * ((r' : Int) - (r : Int)))
        = if r' = r then c₁ * x r * (n : K) else 0 := by
    intro r' hr'
    rw [← Finset.mul_sum, geom_sum_diff n wI hone hgeom r r' hr (Finset.mem_range.mp hr')]
    split_ifs with h
    · subst h
      rw [sub_self, mul_zero, hone, one_mul]
    · rw [mul_zero]
  rw [Finset.sum_congr rfl G, Finset.sum_ite_eq' (range n) r, if_pos (Finset.mem_range.mpr hr)]
  calc c₂ * (c₁ * x r * (n : K)) = (c₁ * c₂ * (n : K)) * x r := by ring
    _ = x r := by rw [hc, one_mul]

theorem unitary_example : ∃ (wI : Int → ℚ), (∀ a b : Int, a % (2 : Int) = b % (2 : Int) → wI a = wI b) ∧
    (∀ a b : Int, wI (a + b) = wI a * wI b) ∧ wI 0 = 1 ∧ wI 1 = -1 ∧
    (∀ d : Int, d % (2 : Int) ≠ 0 → (Finset.range 2).sum (fun k => wI ((k : Int) * d)) = 0) := by
  refine ⟨fun a => if a % 2 = 0 then 1 else -1, ?_, ?_, ?_, ?_, ?_⟩
  · intro a b hab
    simp only [hab]
  · intro a b
    simp only
    rw [Int.add_emod a b 2]
    rcases Int.emod_two_eq_zero_or_one a with ha | ha <;>
      rcases Int.emod_two_eq_zero_or_one b with hb | hb <;>
      rw [ha, hb] <;> norm_num
  · simp
  · simp
  · intro d hd
    simp only [Finset.sum_range_succ, Finset.sum_range_zero]
    rw [if_pos (by simp), if_neg (by simpa using hd)]
    norm_num

theorem fft_iff_sampling_reorders (t : TrajComp) (tol : Rat) :
    t.treatment tol = .fft ↔ t.isOnGridOnly tol = true := by
  unfold TrajComp.treatment TrajComp.isOnGridOnly treatment
  cases h1 : (t.shape.drop 1).all (· = 1) <;> cases h2 : t.onGrid tol <;> simp
end M
