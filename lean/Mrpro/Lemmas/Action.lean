import Mrpro.Model.OpsND
import Mrpro.Lemmas.Basic
import Mathlib.Tactic.NormNum
import Mathlib.Tactic.FieldSimp
/-! Proofs for `Mrpro/Props/C09.lean`. -/
set_option linter.unusedSectionVars false
set_option linter.unusedVariables false
namespace M
open Finset
variable {K : Type} [CommRing K] [StarRing K]

theorem padCrop_centre (old new : Nat) (ho : 0 < old) (hn : 0 < new) (x : Nat → K) :
    padCrop old new x (new / 2) = x (old / 2) := by
  unfold padCrop padCropWith padShift
  simp only
  rw [if_pos (by omega)]
  congr 1
  omega
theorem padCrop_centre_iff (old new : Nat) (ho : 0 < old) (s : Int) :
    (∀ x : Nat → Int, padCropWith s old x (new / 2) = x (old / 2)) ↔ s = padShift old new := by
  constructor
  · intro h
    have h1 := h (fun i => if i = old / 2 then 1 else 0)
    unfold padCropWith at h1
    simp only [if_true] at h1
    unfold padShift
    split_ifs at h1 with h2 h3 <;> omega
  · rintro rfl x
    unfold padCropWith padShift
    simp only
    rw [if_pos (by omega)]
    congr 1
    omega
theorem crop_pad_id (old new : Nat) (h : old ≤ new) (x : Nat → K) (i : Nat) (hi : i < old) :
    padCrop new old (padCrop old new x) i = x i := by
  unfold padCrop padCropWith padShift
  simp only
  rw [if_pos (by omega), if_pos (by omega)]
  congr 1
  omega
theorem pad_zero_outside (old new : Nat) (x : Nat → K) (j : Nat)
    (hj : (j : Int) < padShift old new ∨ padShift old new + old ≤ (j : Int)) :
    padCrop old new x j = 0 := by
  unfold padCrop padCropWith
  simp only
  rw [if_neg (by omega)]
theorem gather_scatterAdd_unique (S G : Nat) (idx : Nat → Option Nat) (y : Nat → K) (s g : Nat)
    (hs : s < S) (hg : g < G) (h : idx s = some g) (huniq : ∀ s', s' < S → idx s' = some g → s' = s) :
    gather G idx (scatterAdd S idx y) s = y s := by
  unfold gather
  rw [h]
  simp only [if_pos hg]
  unfold scatterAdd
  rw [sumTo_eq, Finset.sum_eq_single s]
  · rw [if_pos h]
  · intro b hb hne
    rw [if_neg]
    intro hb'
    exact hne (huniq b (Finset.mem_range.mp hb) hb')
  · intro hns
    exact absurd (Finset.mem_range.mpr hs) hns
theorem gather_outside (G : Nat) (idx : Nat → Option Nat) (x : Nat → K) (s : Nat)
    (h : idx s = none ∨ ∃ g, idx s = some g ∧ G ≤ g) : gather G idx x s = 0 := by
  unfold gather
  rcases h with h | ⟨g, h, hg⟩
  · rw [h]
  · rw [h]
    simp only
    rw [if_neg (by omega)]
theorem scatterAdd_gather_mask (S G : Nat) (idx : Nat → Option Nat) (x : Nat → K) (g : Nat) (hg : g < G) :
    scatterAdd S idx (gather G idx x) g
      = (sumTo S (fun s => if idx s = some g then (1 : K) else 0)) * x g := by
  unfold scatterAdd
  rw [sumTo_eq, sumTo_eq, Finset.sum_mul]
  apply Finset.sum_congr rfl
  intro s _
  split_ifs with h
  · unfold gather
    rw [h]
    simp only [if_pos hg, one_mul]
  · rw [zero_mul]
theorem mask_zero_one (S : Nat) (idx : Nat → Option Nat) (g : Nat)
    (hinj : ∀ s s', s < S → s' < S → idx s = some g → idx s' = some g → s = s') :
    sumTo S (fun s => if idx s = some g then (1 : K) else 0) = 0 ∨
    sumTo S (fun s => if idx s = some g then (1 : K) else 0) = 1 := by
  rw [sumTo_eq]
  by_cases hex : ∃ s, s < S ∧ idx s = some g
  · obtain ⟨s, hs, h⟩ := hex
    right
    rw [Finset.sum_eq_single s]
    · rw [if_pos h]
    · intro b hb hne
      rw [if_neg]
      intro hb'
      exact hne (hinj b s (Finset.mem_range.mp hb) hs hb' h)
    · intro hns
      exact absurd (Finset.mem_range.mpr hs) hns
  · left
    apply Finset.sum_eq_zero
    intro s hs
    rw [if_neg]
    intro h
    exact hex ⟨s, Finset.mem_range.mp hs, h⟩
theorem axisIdx_centre (n : Nat) (hn : 0 < n) : axisIdx n 0 = some (n / 2) := by
  unfold axisIdx
  simp only
  rw [if_pos (by omega)]
  congr 1
  omega

theorem axisIdx_some (n : Nat) (k : Int) (i : Nat) (h : axisIdx n k = some i) :
    (i : Int) = k + (n / 2 : Nat) ∧ i < n := by
  unfold axisIdx at h
  simp only at h
  split_ifs at h with h1
  simp only [Option.some.injEq] at h
  omega

theorem ravel3_some (nz ny nx : Nat) (kz ky kx : Int) (f : Nat) (h : ravel3 nz ny nx kz ky kx = some f) :
    ∃ z y x, axisIdx nz kz = some z ∧ axisIdx ny ky = some y ∧ axisIdx nx kx = some x ∧
      f = z * ny * nx + y * nx + x := by
  unfold ravel3 at h
  cases hz : axisIdx nz kz with
  | none => rw [hz] at h; simp at h
  | some z =>
    cases hy : axisIdx ny ky with
    | none => rw [hz, hy] at h; simp at h
    | some y =>
      cases hx : axisIdx nx kx with
      | none => rw [hz, hy, hx] at h; simp at h
      | some x =>
        rw [hz, hy, hx] at h
        simp at h
        exact ⟨z, y, x, rfl, rfl, rfl, h.symm⟩

theorem ravel3_lt (nz ny nx : Nat) (kz ky kx : Int) (f : Nat) (h : ravel3 nz ny nx kz ky kx = some f) :
    f < nz * ny * nx := by
  obtain ⟨z, y, x, hz, hy, hx, rfl⟩ := ravel3_some _ _ _ _ _ _ _ h
  have hz' := (axisIdx_some _ _ _ hz).2
  have hy' := (axisIdx_some _ _ _ hy).2
  have hx' := (axisIdx_some _ _ _ hx).2
  have h1 : (y + 1) * nx ≤ ny * nx := Nat.mul_le_mul_right nx hy'
  have h2 : (z + 1) * (ny * nx) ≤ nz * (ny * nx) := Nat.mul_le_mul_right (ny * nx) hz'
  rw [Nat.mul_assoc, Nat.mul_assoc]
  rw [Nat.add_mul, Nat.one_mul] at h1 h2
  omega
theorem ravel3_injective (nz ny nx : Nat) (kz ky kx kz' ky' kx' : Int) (f : Nat)
    (h : ravel3 nz ny nx kz ky kx = some f) (h' : ravel3 nz ny nx kz' ky' kx' = some f) :
    kz = kz' ∧ ky = ky' ∧ kx = kx' := by
  obtain ⟨z, y, x, hz, hy, hx, e⟩ := ravel3_some _ _ _ _ _ _ _ h
  obtain ⟨z', y', x', hz', hy', hx', e'⟩ := ravel3_some _ _ _ _ _ _ _ h'
  obtain ⟨az, bz⟩ := axisIdx_some _ _ _ hz
  obtain ⟨ay, bY⟩ := axisIdx_some _ _ _ hy
  obtain ⟨ax, bx⟩ := axisIdx_some _ _ _ hx
  obtain ⟨az', bz'⟩ := axisIdx_some _ _ _ hz'
  obtain ⟨ay', bY'⟩ := axisIdx_some _ _ _ hy'
  obtain ⟨ax', bx'⟩ := axisIdx_some _ _ _ hx'
  have e1 : f = (z * ny + y) * nx + x := by rw [e]; ring
  have e1' : f = (z' * ny + y') * nx + x' := by rw [e']; ring
  have hxx : x = x' := by
    have := congrArg (· % nx) (e1.symm.trans e1')
    simpa [Nat.mul_add_mod_of_lt bx, Nat.mul_add_mod_of_lt bx'] using this
  have hq : z * ny + y = z' * ny + y' := by
    subst hxx
    have : (z * ny + y) * nx = (z' * ny + y') * nx := by omega
    exact Nat.eq_of_mul_eq_mul_right (by omega) this
  have hyy : y = y' := by
    have := congrArg (· % ny) hq
    simpa [Nat.mul_add_mod_of_lt bY, Nat.mul_add_mod_of_lt bY'] using this
  have hzz : z = z' := by
    subst hyy
    have : z * ny = z' * ny := by omega
    exact Nat.eq_of_mul_eq_mul_right (by omega) this
  subst hxx hyy hzz
  refine ⟨?_, ?_, ?_⟩ <;> omega
theorem fd_forward_stencil_zeros (n : Nat) (x : Nat → Rat) (i : Nat) (hi : i < n) :
    corr3L false Gen.fdKernel_forward n x i = (if i + 1 < n then x (i + 1) else 0) - x i := by
  simp [corr3L, corr3, Gen.fdKernel_forward]
  split_ifs <;> ring
theorem fd_forward_stencil_circular (n : Nat) (x : Nat → Rat) (i : Nat) (hi : i < n) :
    corr3L true Gen.fdKernel_forward n x i = x ((i + 1) % n) - x i := by
  simp [corr3L, corr3, Gen.fdKernel_forward]
  ring
theorem fd_backward_stencil_zeros (n : Nat) (x : Nat → Rat) (i : Nat) (hi : i < n) :
    corr3L false Gen.fdKernel_backward n x i = x i - (if 0 < i then x (i - 1) else 0) := by
  simp [corr3L, corr3, Gen.fdKernel_backward]
  split_ifs <;> ring
theorem fd_backward_stencil_circular (n : Nat) (x : Nat → Rat) (i : Nat) (hi : i < n) :
    corr3L true Gen.fdKernel_backward n x i = x i - x ((i + n - 1) % n) := by
  simp [corr3L, corr3, Gen.fdKernel_backward]
  ring
theorem fd_central_stencil_zeros (n : Nat) (x : Nat → Rat) (i : Nat) (hi : i < n) :
    corr3L false Gen.fdKernel_central n x i
      = ((if i + 1 < n then x (i + 1) else 0) - (if 0 < i then x (i - 1) else 0)) / 2 := by
  simp [corr3L, corr3, Gen.fdKernel_central]
  split_ifs <;> ring
theorem fd_central_stencil_circular (n : Nat) (x : Nat → Rat) (i : Nat) (hi : i < n) :
    corr3L true Gen.fdKernel_central n x i = (x ((i + 1) % n) - x ((i + n - 1) % n)) / 2 := by
  simp [corr3L, corr3, Gen.fdKernel_central]
  ring

/-- the accumulator pair computed by `unravel` -/
private def unravelAux (shape : List Nat) (flat : Nat) : List Nat × Nat :=
  shape.foldr (fun s (acc : List Nat × Nat) => ((acc.2 % s) :: acc.1, acc.2 / s)) ([], flat)

private theorem unravelAux_cons (a : Nat) (rest : List Nat) (f : Nat) :
    unravelAux (a :: rest) f
      = (((unravelAux rest f).2 % a) :: (unravelAux rest f).1, (unravelAux rest f).2 / a) := rfl

private theorem unravelAux_spec (shape : List Nat) (f : Nat) :
    (unravelAux shape f).2 = f / prodL shape ∧
    ∀ c : Nat, (shape.zip (unravelAux shape f).1).foldl (fun acc (p : Nat × Nat) => acc * p.1 + p.2) c
      = c * prodL shape + f % prodL shape := by
  induction shape with
  | nil => simp [unravelAux, prodL, Nat.mod_one]
  | cons a rest ih =>
    obtain ⟨ih1, ih2⟩ := ih
    rw [unravelAux_cons]
    constructor
    · simp only [prodL]
      rw [ih1, Nat.div_div_eq_div_mul, Nat.mul_comm]
    · intro c
      simp only [List.zip_cons_cons, List.foldl_cons, prodL]
      rw [ih2, ih1, Nat.mul_comm a (prodL rest), Nat.mod_mul]
      ring

theorem ravel_unravel (shape : List Nat) (f : Nat) (hf : f < prodL shape) :
    ravel shape (unravel shape f) = f := by
  have := (unravelAux_spec shape f).2 0
  unfold ravel unravel
  unfold unravelAux at this
  rw [Nat.mod_eq_of_lt hf] at this
  simpa using this
theorem unravel_length (shape : List Nat) (f : Nat) : (unravel shape f).length = shape.length := by
  show (unravelAux shape f).1.length = shape.length
  induction shape with
  | nil => rfl
  | cons a rest ih => rw [unravelAux_cons]; simp [ih]
end M
