import Mrpro.Model.Resample
import Mathlib.Algebra.Order.Field.Basic
import Mathlib.Algebra.Order.Floor.Ring
import Mathlib.Data.Rat.Floor
import Mathlib.Algebra.BigOperators.Group.List.Basic
import Mathlib.Algebra.BigOperators.Ring.List
import Mathlib.Tactic.Ring
import Mathlib.Tactic.FieldSimp
import Mathlib.Tactic.Linarith
import Mathlib.Tactic.Positivity
import Mathlib.Tactic.NormNum
/-! Proofs for `Mrpro/Props/C20.lean`. -/
namespace M

theorem foldl_add_acc (l : List Rat) (a : Rat) : l.foldl (· + ·) a = a + l.sum := by
  induction l generalizing a with
  | nil => simp
  | cons x xs ih => simp [List.foldl_cons, ih, add_assoc]

theorem foldl_add_eq_sum (l : List Rat) : l.foldl (· + ·) 0 = l.sum := by
  rw [foldl_add_acc]; simp

theorem length_prefixSums (l : List Rat) : (prefixSums l).length = l.length := by
  induction l with
  | nil => simp [prefixSums]
  | cons x xs ih => simp [prefixSums, ih]

theorem getElem_prefixSums (l : List Rat) (i : Nat) (h : i < (prefixSums l).length) :
    (prefixSums l)[i] = (l.take (i + 1)).sum := by
  induction l generalizing i with
  | nil => simp [prefixSums] at h
  | cons x xs ih =>
    cases i with
    | zero => simp [prefixSums]
    | succ j =>
      simp only [prefixSums, List.getElem_cons_succ, List.getElem_map, List.take_succ_cons,
        List.sum_cons]
      rw [ih]; ring

theorem argmaxFirst_spec (l : List Bool) (h : true ∈ l) :
    ∃ hlt : argmaxFirst l < l.length, l[argmaxFirst l] = true ∧
      ∀ j (hj : j < argmaxFirst l), l[j] = false := by
  cases hi : l.idxOf? true with
  | none => rw [List.idxOf?_eq_none_iff] at hi; exact absurd h hi
  | some i =>
    have he : argmaxFirst l = i := by unfold argmaxFirst; rw [hi]
    obtain ⟨hlt, h1, h2⟩ := List.idxOf?_eq_some_iff.1 hi
    subst he
    refine ⟨hlt, h1, fun j hj => ?_⟩
    have := h2 j hj
    simpa using this

theorem argmaxFirst_none (l : List Bool) (h : true ∉ l) : argmaxFirst l = 0 := by
  unfold argmaxFirst
  rw [List.idxOf?_eq_none_iff.2 h]

theorem mask_get (prof : List Rat) (total t : Rat) (j : Nat)
    (hj : j < (((prefixSums prof).map (· / total)).map (fun c => decide (c > t))).length) :
    (((prefixSums prof).map (· / total)).map (fun c => decide (c > t)))[j]
      = decide ((prof.take (j + 1)).sum / total > t) := by
  simp [getElem_prefixSums]

theorem left_core (prof : List Rat) (total : Rat) (hpos : 0 < total) :
    (prof.take (argmaxFirst (((prefixSums prof).map (· / total)).map
      (fun c => decide (c > 1/100))))).sum ≤ total / 100 := by
  by_cases h : true ∈ ((prefixSums prof).map (· / total)).map (fun c => decide (c > 1/100))
  · obtain ⟨hlt, _, hfalse⟩ := argmaxFirst_spec _ h
    rcases Nat.eq_zero_or_pos (argmaxFirst (((prefixSums prof).map (· / total)).map
      (fun c => decide (c > 1/100)))) with h0 | hp
    · rw [h0]; simp; positivity
    · have hf := hfalse _ (Nat.sub_lt hp Nat.one_pos)
      rw [mask_get, Nat.sub_add_cancel hp, decide_eq_false_iff_not, not_lt,
        div_le_iff₀ hpos] at hf
      linarith
  · rw [argmaxFirst_none _ h]; simp; positivity

theorem findWidth_left_tail (prof : List Rat) (hnn : ∀ p ∈ prof, 0 ≤ p) (hpos : 0 < prof.foldl (· + ·) 0) :
    let total := prof.foldl (· + ·) 0
    let iL := argmaxFirst (((prefixSums prof).map (· / total)).map (fun c => decide (c > 1/100)))
    (prof.take iL).foldl (· + ·) 0 ≤ total / 100 := by
  intro total iL
  have _ := hnn
  rw [foldl_add_eq_sum]
  exact left_core prof total hpos

theorem right_core (prof : List Rat) (total : Rat) (hpos : 0 < total) (htot : prof.sum = total) :
    total - (prof.take (argmaxFirst (((prefixSums prof).map (· / total)).map
      (fun c => decide (c > 99/100))) + 1)).sum < total / 100 := by
  have hlen : (((prefixSums prof).map (· / total)).map
      (fun c => decide (c > 99/100))).length = prof.length := by simp [length_prefixSums]
  have hne : prof ≠ [] := by
    rintro rfl; simp at htot; linarith
  have hlp : 0 < prof.length := List.length_pos_iff.2 hne
  have h : true ∈ ((prefixSums prof).map (· / total)).map (fun c => decide (c > 99/100)) := by
    have hl : prof.length - 1 < (((prefixSums prof).map (· / total)).map
      (fun c => decide (c > 99/100))).length := by omega
    have : (((prefixSums prof).map (· / total)).map
      (fun c => decide (c > 99/100)))[prof.length - 1] = true := by
      rw [mask_get, Nat.sub_add_cancel hlp, List.take_length, htot, div_self hpos.ne']
      norm_num
    rw [← this]; exact List.getElem_mem hl
  obtain ⟨hlt, htrue, _⟩ := argmaxFirst_spec _ h
  rw [mask_get, decide_eq_true_eq, gt_iff_lt, lt_div_iff₀ hpos] at htrue
  linarith

theorem findWidth_right_tail (prof : List Rat) (hnn : ∀ p ∈ prof, 0 ≤ p) (hpos : 0 < prof.foldl (· + ·) 0) :
    let total := prof.foldl (· + ·) 0
    let iR := argmaxFirst (((prefixSums prof).map (· / total)).map (fun c => decide (c > 99/100)))
    total - (prof.take (iR + 1)).foldl (· + ·) 0 < total / 100 := by
  intro total iR
  have _ := hnn
  rw [foldl_add_eq_sum]
  exact right_core prof total hpos (foldl_add_eq_sum prof).symm

theorem lt_floor_toNat_succ (m : Rat) (hm : 0 ≤ m) : m < ((m.floor.toNat + 1 : Nat) : Rat) := by
  have hfl : 0 ≤ m.floor := Rat.le_floor_iff.2 (by simpa using hm)
  have h1 : ((m.floor.toNat : Nat) : Rat) = (m.floor : Rat) := by
    have : ((m.floor.toNat : Int) : Rat) = (m.floor : Rat) := by rw [Int.toNat_of_nonneg hfl]
    rw [← this]; exact (Int.cast_natCast _).symm
  have h2 := Rat.lt_floor_add_one m
  push_cast at h2 ⊢
  rw [h1]; exact h2

theorem abs_if (x : Rat) : (if x < 0 then -x else x) = |x| := by
  split_ifs with h
  · exact (abs_of_neg h).symm
  · exact (abs_of_nonneg (not_lt.1 h)).symm

theorem findWidth_covers (grid prof : List Rat) :
    let total := prof.foldl (· + ·) 0
    let cdf := (prefixSums prof).map (· / total)
    let l := grid.getD (argmaxFirst (cdf.map (fun c => decide (c > 1/100)))) 0
    let r := grid.getD (argmaxFirst (cdf.map (fun c => decide (c > 99/100)))) 0
    |l| < findWidthOn grid prof ∧ |r| < findWidthOn grid prof := by
  intro total cdf l r
  have hw : findWidthOn grid prof = (max |l| |r|).floor.toNat + 1 := by
    unfold findWidthOn
    simp only [abs_if]
    rfl
  rw [hw]
  have hm : 0 ≤ max |l| |r| := le_max_of_le_left (abs_nonneg l)
  have := lt_floor_toNat_succ _ hm
  exact ⟨lt_of_le_of_lt (le_max_left _ _) this, lt_of_le_of_lt (le_max_right _ _) this⟩

theorem findWidth_shipped_one (m : Nat) (p0 p1 : Rat) (h0 : 0 ≤ p0) (h1 : 0 < p1) (h : p0 * 100 ≤ p0 + p1) :
    findWidthOn (gridShipped m) [p0, p1] = 1 := by
  have ht : (0:Rat) < 0 + p0 + p1 := by linarith
  have ha : ¬ (p0 / (0 + p0 + p1) > 1/100) := by
    rw [gt_iff_lt, not_lt, div_le_iff₀ ht]; linarith
  have hb : (p1 + p0) / (0 + p0 + p1) = 1 := by
    rw [div_eq_one_iff_eq ht.ne']; ring
  have ha' : ¬ (p0 / (0 + p0 + p1) > 99/100) := by
    rw [gt_iff_lt, not_lt, div_le_iff₀ ht]; linarith
  unfold findWidthOn gridShipped
  simp only [List.foldl, prefixSums, List.map, hb, decide_eq_false ha, decide_eq_false ha']
  norm_num [argmaxFirst, List.idxOf?_cons]
  decide

theorem rowNorm_sum (f s ε : Rat) (ws : List Rat) (hs : ws.foldl (· + ·) 0 = s) :
    (ws.map (rowNorm f s ε)).foldl (· + ·) 0 = f * (s / (s + ε)) := by
  rw [foldl_add_eq_sum] at hs ⊢
  have : ws.map (rowNorm f s ε) = ws.map (fun w => w * (f / (s + ε))) := rfl
  rw [this, List.sum_map_mul_right]
  show (List.map id ws).sum * _ = _
  rw [List.map_id, hs]
  ring

theorem rowNorm_bounds (f s ε : Rat) (hf : 0 ≤ f) (hs : 0 < s) (hε : 0 < ε) :
    f * (1 - ε / s) ≤ f * (s / (s + ε)) ∧ f * (s / (s + ε)) ≤ f := by
  have hse : 0 < s + ε := by linarith
  constructor
  · apply mul_le_mul_of_nonneg_left _ hf
    rw [le_div_iff₀ hse]
    have : (1 - ε / s) * (s + ε) = s - ε * ε / s := by field_simp; ring
    rw [this]
    have : 0 ≤ ε * ε / s := by positivity
    linarith
  · calc f * (s / (s + ε)) ≤ f * 1 := by
          apply mul_le_mul_of_nonneg_left _ hf
          rw [div_le_one hse]; linarith
      _ = f := mul_one f

theorem unnorm_centre_false (n i : Nat) (hn : 0 < n) : unnorm false n ((2 * (i : Rat) + 1) / n - 1) = i := by
  have : (n : Rat) ≠ 0 := by exact_mod_cast hn.ne'
  unfold unnorm; simp; field_simp; ring
theorem unnorm_centre_true (n i : Nat) (hn : 1 < n) : unnorm true n (2 * (i : Rat) / ((n : Rat) - 1) - 1) = i := by
  have : (n : Rat) - 1 ≠ 0 := by
    have : (1 : Rat) < n := by exact_mod_cast hn
    linarith
  unfold unnorm; simp; field_simp

theorem lerpAt_int (n : Nat) (img : Int → Rat) (i : Nat) (hi : i < n) : lerpAt n img (i : Rat) = img i := by
  have hfl : ((i : Nat) : Rat).floor = (i : Int) := by
    have := Rat.floor_intCast (i : Int)
    simpa using this
  unfold lerpAt
  simp only [hfl]
  have : pix n img (i : Int) = img i := by
    unfold pix; rw [if_pos]; exact ⟨by omega, by exact_mod_cast hi⟩
  rw [this]; simp

theorem lerpAt_convex (n : Nat) (img : Int → Rat) (c : Rat) :
    ∃ w : Rat, 0 ≤ w ∧ w < 1 ∧ lerpAt n img c = (1 - w) * pix n img c.floor + w * pix n img (c.floor + 1) := by
  refine ⟨c - c.floor, ?_, ?_, rfl⟩
  · have := Rat.floor_le c; linarith
  · have := Rat.lt_floor_add_one c; push_cast at this; linarith

theorem lerpAt_linear (n : Nat) (α β c : Rat) (h0 : 0 ≤ c) (h1 : c ≤ (n : Rat) - 1) :
    lerpAt n (fun i => α * i + β) c = α * c + β := by
  have hk0 : 0 ≤ c.floor := Rat.le_floor_iff.2 (by simpa using h0)
  have hle := Rat.floor_le c
  have hlt := Rat.lt_floor_add_one c
  push_cast at hlt
  have hkn : c.floor < n := by
    have : (c.floor : Rat) < (n : Rat) := by linarith
    exact_mod_cast this
  unfold lerpAt
  have hp0 : pix n (fun i => α * i + β) c.floor = α * c.floor + β := by
    unfold pix; rw [if_pos ⟨hk0, hkn⟩]
  simp only [hp0]
  by_cases hc : c.floor + 1 < n
  · have hp1 : pix n (fun i => α * i + β) (c.floor + 1) = α * ((c.floor + 1 : Int) : Rat) + β := by
      unfold pix; rw [if_pos ⟨by omega, hc⟩]
    rw [hp1]; push_cast; ring
  · have hk : c.floor = (n : Int) - 1 := by omega
    have hcq : (c.floor : Rat) = (n : Rat) - 1 := by rw [hk]; push_cast; ring
    have hceq : c = (n : Rat) - 1 := le_antisymm h1 (by linarith)
    have hw : c - (c.floor : Rat) = 0 := by rw [hcq, hceq]; ring
    rw [hw, hcq, hceq]; ring
end M

