import Mrpro.Model.Functional
import Mathlib.Algebra.Order.Field.Basic
import Mathlib.Algebra.Order.AbsoluteValue.Basic
import Mathlib.Algebra.BigOperators.Group.Finset.Basic
import Mathlib.Algebra.Order.BigOperators.Group.Finset
import Mathlib.Analysis.InnerProductSpace.Basic
import Mathlib.Tactic.Ring
import Mathlib.Tactic.FieldSimp
import Mathlib.Tactic.Linarith
import Mathlib.Tactic.Positivity
import Mathlib.Tactic.NormNum
import Mathlib.Tactic.LinearCombination
/-! Proofs for `Mrpro/Props/C08.lean`. -/
namespace M
set_option linter.unusedSectionVars false
variable {K : Type} [Field K] [LinearOrder K] [IsStrictOrderedRing K]

theorem absK_eq_abs (x : K) : absK x = |x| := by
  unfold absK; split_ifs with h
  · rw [abs_of_neg h]
  · rw [abs_of_nonneg (not_lt.mp h)]
theorem reluK_eq_max (x : K) : reluK x = max x 0 := by
  unfold reluK; split_ifs with h
  · rw [max_eq_right h.le]
  · rw [max_eq_left (not_lt.mp h)]
theorem minK_eq_min (a b : K) : minK a b = min a b := by
  unfold minK; split_ifs with h
  · rw [min_eq_right h.le]
  · rw [min_eq_left (not_lt.mp h)]

/-- `sgn(d)·|d| = d` -/
theorem sgnK_mul_abs (d : K) : sgnK d * |d| = d := by
  unfold sgnK; split_ifs with h1 h2
  · rw [abs_of_neg h1]; ring
  · rw [abs_of_pos h2]; ring
  · have : d = 0 := le_antisymm (not_lt.mp h2) (not_lt.mp h1)
    rw [this]; simp

/-- `sgn` is invariant under division by a positive number -/
theorem sgnK_div_pos (d σ : K) (hσ : 0 < σ) : sgnK (d / σ) = sgnK d := by
  unfold sgnK
  have h1 : d / σ < 0 ↔ d < 0 := by rw [div_lt_iff₀ hσ, zero_mul]
  have h2 : 0 < d / σ ↔ 0 < d := by rw [lt_div_iff₀ hσ, zero_mul]
  simp only [h1, h2]

/-- the usual closed form of soft-thresholding -/
theorem softThr_eq (d τ : K) (hτ : 0 ≤ τ) :
    softThr d τ = if τ < d then d - τ else if d < -τ then d + τ else 0 := by
  unfold softThr sgnK reluK; rw [absK_eq_abs]
  rcases abs_cases d with ⟨hd, hd'⟩ | ⟨hd, hd'⟩ <;> rw [hd] <;> split_ifs <;>
    linarith

theorem softThr_argmin (d τ p : K) (hτ : 0 ≤ τ) :
    τ * |softThr d τ| + (d - softThr d τ) ^ 2 / 2 ≤ τ * |p| + (d - p) ^ 2 / 2 := by
  rw [softThr_eq d τ hτ]
  have a1 : 0 ≤ |p| - p := sub_nonneg.mpr (le_abs_self p)
  have a2 : 0 ≤ |p| + p := by linarith [neg_abs_le p]
  split_ifs with h1 h2
  · rw [abs_of_nonneg (by linarith : 0 ≤ d - τ)]
    nlinarith [sq_nonneg (d - p - τ), mul_nonneg hτ a1]
  · rw [abs_of_nonpos (by linarith : d + τ ≤ 0)]
    nlinarith [sq_nonneg (d - p + τ), mul_nonneg hτ a2]
  · simp only [abs_zero, mul_zero, zero_add, sub_zero]
    have h1' : 0 ≤ τ - d := by linarith
    have h2' : 0 ≤ τ + d := by linarith
    nlinarith [sq_nonneg p, mul_nonneg h1' a2, mul_nonneg h2' a1]

theorem l1Prox_argmin (w σ n t x p : K) (hσ : 0 ≤ σ) (hn : 0 < n) :
    σ * (l1ValEl w t (l1ProxEl w σ n t x) / n) + (x - l1ProxEl w σ n t x) ^ 2 / 2
      ≤ σ * (l1ValEl w t p / n) + (x - p) ^ 2 / 2 := by
  have h := softThr_argmin (x - t) (|w| * σ / n) (p - t) (by positivity)
  unfold l1ValEl l1ProxEl; rw [absK_eq_abs, absK_eq_abs, absK_eq_abs]
  have e : |w * σ / n| = |w| * σ / n := by
    rw [abs_div, abs_mul, abs_of_nonneg hσ, abs_of_pos hn]
  rw [e]
  generalize softThr (x - t) (|w| * σ / n) = s at h ⊢
  rw [abs_mul, abs_mul, show s + t - t = s by ring]
  have e2 : x - (s + t) = x - t - s := by ring
  have e3 : x - t - (p - t) = x - p := by ring
  rw [e2]; rw [e3] at h
  have e4 : σ * (|w| * |s| / n) = |w| * σ / n * |s| := by ring
  have e5 : σ * (|w| * |p - t| / n) = |w| * σ / n * |p - t| := by ring
  rw [e4, e5]; exact h

theorem quad_argmin_aux (a t x p : K) (ha : 0 ≤ a) :
    a / 2 * ((x + a * t) / (1 + a) - t) ^ 2 + (x - (x + a * t) / (1 + a)) ^ 2 / 2
      ≤ a / 2 * (p - t) ^ 2 + (x - p) ^ 2 / 2 := by
  have h1 : 0 < 1 + a := by linarith
  have h1' : (1 + a) ≠ 0 := ne_of_gt h1
  have key : a / 2 * (p - t) ^ 2 + (x - p) ^ 2 / 2
      - (a / 2 * ((x + a * t) / (1 + a) - t) ^ 2 + (x - (x + a * t) / (1 + a)) ^ 2 / 2)
      = (1 + a) / 2 * (p - (x + a * t) / (1 + a)) ^ 2 := by
    field_simp
    ring
  have : 0 ≤ (1 + a) / 2 * (p - (x + a * t) / (1 + a)) ^ 2 := by positivity
  linarith

theorem l2Prox_argmin (w σ n t x p : K) (hσ : 0 ≤ σ) (hn : 0 < n) :
    σ * (l2ValEl w t (l2ProxEl w σ n t x) / n) + (x - l2ProxEl w σ n t x) ^ 2 / 2
      ≤ σ * (l2ValEl w t p / n) + (x - p) ^ 2 / 2 := by
  have ha : 0 ≤ w * w * (1 + 1) * σ / n := by
    have := mul_self_nonneg w
    positivity
  have h := quad_argmin_aux (w * w * (1 + 1) * σ / n) t x p ha
  unfold l2ValEl l2ProxEl
  simp only [absK_eq_abs, abs_mul_abs_self]
  generalize (x + w * w * (1 + 1) * σ / n * t) / (1 + w * w * (1 + 1) * σ / n) = s at h ⊢
  have e1 : ∀ y : K, σ * (w * (y - t) * (w * (y - t)) / n)
      = w * w * (1 + 1) * σ / n / 2 * (y - t) ^ 2 := by
    intro y; ring
  rw [e1, e1]; exact h

theorem moreau_l1 (w σ n t x : K) (hσ : 0 < σ) (hn : 0 < n) :
    x = l1ProxEl w σ n t x + σ * l1ConjProxEl w (1 / σ) n t (x / σ) := by
  unfold l1ProxEl l1ConjProxEl softThr
  simp only [absK_eq_abs, reluK_eq_max, minK_eq_min]
  have e : x / σ - 1 / σ * t = (x - t) / σ := by ring
  rw [e, sgnK_div_pos _ _ hσ, abs_div (x - t) σ, abs_of_pos hσ]
  have e1 : |w * σ / n| = |w| * σ / n := by
    rw [abs_div, abs_mul, abs_of_pos hσ, abs_of_pos hn]
  have e2 : |(|w| / n)| = |w| / n := by
    rw [abs_div, abs_abs, abs_of_pos hn]
  rw [e1, e2]
  have key : max (|x - t| - |w| * σ / n) 0 + σ * min (|x - t| / σ) (|w| / n) = |x - t| := by
    rcases le_total (|x - t|) (|w| * σ / n) with h | h
    · have h' : |x - t| / σ ≤ |w| / n := by
        rw [div_le_iff₀ hσ]; calc |x - t| ≤ |w| * σ / n := h
          _ = |w| / n * σ := by ring
      rw [max_eq_right (by linarith), min_eq_left h']
      field_simp
      ring
    · have h' : |w| / n ≤ |x - t| / σ := by
        rw [le_div_iff₀ hσ]; calc |w| / n * σ = |w| * σ / n := by ring
          _ ≤ |x - t| := h
      rw [max_eq_left (by linarith), min_eq_right h']
      ring
  have h := sgnK_mul_abs (x - t)
  rw [← key] at h
  linear_combination (-1 : K) * h

theorem moreau_l2 (w σ n t x : K) (hσ : 0 < σ) (hn : 0 < n) :
    x = l2ProxEl w σ n t x + σ * l2ConjProxEl w (1 / σ) n t (x / σ) := by
  unfold l2ProxEl l2ConjProxEl
  have hw : 0 ≤ w * w := mul_self_nonneg w
  have h1 : (1 + w * w * (1 + 1) * σ / n) ≠ 0 := by
    have : 0 ≤ w * w * (1 + 1) * σ / n := by positivity
    exact ne_of_gt (by linarith)
  have h2 : (1 / σ + (1 + 1) * (w * w / n)) ≠ 0 := by
    have : 0 ≤ (1 + 1) * (w * w / n) := by positivity
    have : 0 < 1 / σ := by positivity
    exact ne_of_gt (by linarith)
  have hσ' : σ ≠ 0 := ne_of_gt hσ
  have hn' : n ≠ 0 := ne_of_gt hn
  simp only []
  field_simp
  ring

theorem moreau_generic (prox : K → K → K) (σ x : K) (hσ : 0 < σ) :
    x = prox x σ + σ * genericConjProx prox (1 / σ) (x / σ) := by
  unfold genericConjProx
  have hσ' : σ ≠ 0 := ne_of_gt hσ
  have e1 : x / σ / (1 / σ) = x := by field_simp
  have e2 : 1 / (1 / σ) = σ := by field_simp
  rw [e1, e2]
  field_simp
  ring

theorem moreau_zero (σ x : K) (hσ : 0 < σ) : x = x + σ * zeroConjProxEl (1 / σ) (x / σ) := by
  unfold zeroConjProxEl
  have h : (0 : K) < 1 / σ := by positivity
  rw [if_neg (not_lt.mpr h.le), if_pos h]; ring

theorem scaled_prox_l1 (α w σ n t x : K) (hα : 0 ≤ α) :
    l1ProxEl (α * w) σ n t x = l1ProxEl w (σ * α) n t x := by
  have _ := hα
  unfold l1ProxEl
  rw [show α * w * σ / n = w * (σ * α) / n by ring]

theorem scaled_conj_l1 (α w σ n t x : K) (hα : 0 < α) (hn : 0 < n) :
    α * l1ConjProxEl w (σ / α) n t (x / α) = l1ConjProxEl (α * w) σ n t x := by
  have _ := hn
  unfold l1ConjProxEl
  simp only [absK_eq_abs, minK_eq_min]
  have e : x / α - σ / α * t = (x - σ * t) / α := by ring
  rw [e, sgnK_div_pos _ _ hα, abs_div (x - σ * t) α, abs_of_pos hα]
  have e2 : |(|α * w| / n)| = α * |(|w| / n)| := by
    rw [abs_div, abs_abs, abs_mul, abs_of_pos hα, abs_div, abs_abs, mul_div_assoc]
  have hα' : α ≠ 0 := ne_of_gt hα
  have e3 : min (|x - σ * t|) (α * |(|w| / n)|) = α * min (|x - σ * t| / α) (|(|w| / n)|) := by
    rw [mul_min_of_nonneg _ _ hα.le, mul_div_cancel₀ _ hα']
  rw [e2, e3]; ring

theorem blockSoftThr_argmin {E : Type} [NormedAddCommGroup E] [InnerProductSpace ℝ E] (d q : E) (τ : ℝ) (hτ : 0 ≤ τ) :
    let p : E := if ‖d‖ ≤ τ then 0 else (1 - τ / ‖d‖) • d
    τ * ‖p‖ + ‖d - p‖ ^ 2 / 2 ≤ τ * ‖q‖ + ‖d - q‖ ^ 2 / 2 := by
  intro p
  have cs := real_inner_le_norm d q
  have hq := norm_nonneg q
  have hdn := norm_nonneg d
  rw [norm_sub_sq_real d q]
  by_cases h : ‖d‖ ≤ τ
  · have hp : p = 0 := if_pos h
    rw [hp, norm_zero, sub_zero]
    nlinarith [mul_le_mul_of_nonneg_right h hq]
  · have hp : p = (1 - τ / ‖d‖) • d := if_neg h
    have hd : τ < ‖d‖ := not_le.mp h
    have hd0 : 0 < ‖d‖ := lt_of_le_of_lt hτ hd
    have hd0' : ‖d‖ ≠ 0 := ne_of_gt hd0
    have hfrac : 0 ≤ 1 - τ / ‖d‖ := by
      rw [sub_nonneg, div_le_one hd0]; exact hd.le
    have n1 : ‖p‖ = ‖d‖ - τ := by
      rw [hp, norm_smul, Real.norm_eq_abs, abs_of_nonneg hfrac]; field_simp
    have n2 : ‖d - p‖ = τ := by
      have : d - p = (τ / ‖d‖) • d := by
        rw [hp, sub_smul, one_smul]; abel
      rw [this, norm_smul, Real.norm_eq_abs, abs_of_nonneg (by positivity)]; field_simp
    rw [n1, n2]
    nlinarith [sq_nonneg (‖d‖ - ‖q‖ - τ)]
end M
