import Mrpro.Model.Rotation
import Mrpro.Lemmas.RotationL
/-! Proofs for `Mrpro/Props/C12.lean`. -/
namespace M
variable {K : Type} [CommRing K]

theorem elementary_toMat (i : Nat) (hi : i < 3) (s c : K) (h : s * s + c * c = 1) :
    (elementaryG i s c).toMat = axisRot i (c * c - s * s) (s * c + s * c) := by
  have hi' : i = 0 ∨ i = 1 ∨ i = 2 := by omega
  rcases hi' with rfl | rfl | rfl <;>
  · simp [elementaryG, axisRot, Q.toMat, two]
    repeat' apply And.intro
    all_goals first | exact h | ring1

theorem foldl_intrinsic_toMat (rest : List (Nat × (K × K))) (q0 : Q K) :
    (rest.foldl (fun q p => Q.mul q (elementaryG p.1 p.2.1 p.2.2)) q0).toMat =
      (rest.map (fun p => (elementaryG p.1 p.2.1 p.2.2).toMat)).foldl Mat3.mul q0.toMat := by
  induction rest generalizing q0 with
  | nil => rfl
  | cons x xs ih =>
    simp only [List.foldl_cons, List.map_cons]
    rw [ih, toMat_mul]

theorem foldl_extrinsic_toMat (rest : List (Nat × (K × K))) (q0 : Q K) :
    (rest.foldl (fun q p => Q.mul (elementaryG p.1 p.2.1 p.2.2) q) q0).toMat =
      (rest.map (fun p => (elementaryG p.1 p.2.1 p.2.2).toMat)).foldl
        (fun acc m => Mat3.mul m acc) q0.toMat := by
  induction rest generalizing q0 with
  | nil => rfl
  | cons x xs ih =>
    simp only [List.foldl_cons, List.map_cons]
    rw [ih, toMat_mul]

theorem fromEuler_toMat (axes : List Nat) (sc : List (K × K)) (intrinsic : Bool) (hlen : axes.length = sc.length)
    (hpos : 0 < axes.length) :
    (fromEulerG axes sc intrinsic).toMat =
      let ms := (axes.zip sc).map (fun (a, t) => (elementaryG a t.1 t.2).toMat)
      if intrinsic then ms.tail.foldl Mat3.mul (ms.headD (Q.toMat ⟨0, 0, 0, 1⟩))
      else ms.tail.foldl (fun acc m => Mat3.mul m acc) (ms.headD (Q.toMat ⟨0, 0, 0, 1⟩)) := by
  cases axes with
  | nil => simp at hpos
  | cons a0 as =>
    cases sc with
    | nil => simp at hlen
    | cons t0 ts =>
      have hf : (fun (x : Nat × (K × K)) => match x with | (a, t) => (elementaryG a t.1 t.2).toMat) =
          (fun p => (elementaryG p.1 p.2.1 p.2.2).toMat) := by
        funext ⟨a, t⟩; rfl
      cases intrinsic with
      | true =>
        have hg : (fun (q : Q K) (x : Nat × (K × K)) => match x with
              | (a, t) => if true = true then Q.mul q (elementaryG a t.1 t.2)
                          else Q.mul (elementaryG a t.1 t.2) q) =
            (fun q p => Q.mul q (elementaryG p.1 p.2.1 p.2.2)) := by
          funext q ⟨a, t⟩; rfl
        simp only [fromEulerG, List.zip_cons_cons, List.map_cons, List.tail_cons, List.headD_cons,
          if_true]
        rw [hf]
        exact (congrArg (fun f => (List.foldl f (elementaryG a0 t0.1 t0.2) (as.zip ts)).toMat) hg).trans
          (foldl_intrinsic_toMat _ _)
      | false =>
        have hg : (fun (q : Q K) (x : Nat × (K × K)) => match x with
              | (a, t) => if false = true then Q.mul q (elementaryG a t.1 t.2)
                          else Q.mul (elementaryG a t.1 t.2) q) =
            (fun q p => Q.mul (elementaryG p.1 p.2.1 p.2.2) q) := by
          funext q ⟨a, t⟩; rfl
        simp only [fromEulerG, List.zip_cons_cons, List.map_cons, List.tail_cons, List.headD_cons]
        rw [hf]
        exact (congrArg (fun f => (List.foldl f (elementaryG a0 t0.1 t0.2) (as.zip ts)).toMat) hg).trans
          (foldl_extrinsic_toMat _ _)

theorem conj_toMat (q : Q K) : q.conj.toMat = q.toMat.transpose := by
  simp only [Q.conj, Q.toMat, Mat3.transpose, two, Mat3.mk.injEq]
  refine ⟨?_, ?_, ?_, ?_, ?_, ?_, ?_, ?_, ?_⟩ <;> ring
end M
