import Mrpro.Gen.Src
import Mrpro.Lemmas.SignalL
import Mathlib.Tactic.Ring
import Mathlib.Tactic.FieldSimp

/-! The closed forms of the signal models translated from the Python source (`Mrpro/Gen/Src.lean`, regenerated on every
run) are the hand-written model functions of `Mrpro/Model/Signal.lean`, for all real arguments (the derivative theorems of
C17 are about these functions).  On the tree this was written against every equation is `rfl` (so it also holds at `Float`);
the `ring` fall-backs keep the proofs alive under harmless rearrangements of the source expressions. -/

namespace M.SrcL
open M M.Src

theorem sig_invRec_eq (m0 t1 ti : ℝ) : sig_invRec m0 t1 ti = invRec m0 t1 ti := by
  first | rfl | (simp only [sig_invRec, invRec]; ring) | (simp only [sig_invRec, invRec]; field_simp) | (simp only [sig_invRec, invRec]; field_simp; ring)
theorem sig_satRec_eq (m0 t1 ti : ℝ) : sig_satRec m0 t1 ti = satRec m0 t1 ti := by
  first | rfl | (simp only [sig_satRec, satRec]; ring) | (simp only [sig_satRec, satRec]; field_simp) | (simp only [sig_satRec, satRec]; field_simp; ring)
theorem sig_monoExp_eq (m0 td t : ℝ) : sig_monoExp m0 td t = monoExp m0 td t := by
  first | rfl | (simp only [sig_monoExp, monoExp]; ring) | (simp only [sig_monoExp, monoExp]; field_simp) | (simp only [sig_monoExp, monoExp]; field_simp; ring)
theorem sig_molli_eq (a c t1 ti : ℝ) : sig_molli a c t1 ti = molli a c t1 ti := by
  first | rfl | (simp only [sig_molli, molli]; ring) | (simp only [sig_molli, molli]; field_simp) | (simp only [sig_molli, molli]; field_simp; ring)
theorem sig_tss_eq (m0 t1 alpha ts tr scal delay : ℝ) :
    sig_tss m0 t1 alpha ts tr scal delay = tss m0 t1 alpha ts tr scal delay := by
  first | rfl | (simp only [sig_tss, tss]; ring) | (simp only [sig_tss, tss]; field_simp) | (simp only [sig_tss, tss]; field_simp; ring)
theorem sig_wasabi_eq (b0 rb1 c d offset tp b1nom gamma : ℝ) :
    sig_wasabi b0 rb1 c d offset tp b1nom gamma = wasabi b0 rb1 c d offset tp b1nom gamma := by
  first | rfl | (simp only [sig_wasabi, wasabi, sq]; ring) | (simp only [sig_wasabi, wasabi, sq]; field_simp) | (simp only [sig_wasabi, wasabi, sq]; field_simp; ring)
theorem sig_wasabiti_eq (b0 rb1 t1 offset trec tp b1nom gamma : ℝ) :
    sig_wasabiti b0 rb1 t1 offset trec tp b1nom gamma = wasabiti b0 rb1 t1 offset trec tp b1nom gamma := by
  first | rfl | (simp only [sig_wasabiti, wasabiti, sq]; ring) | (simp only [sig_wasabiti, wasabiti, sq]; field_simp) | (simp only [sig_wasabiti, wasabiti, sq]; field_simp; ring)

/-! `ConstraintsOp`: the four elementary maps as coded (through `torch.sigmoid / logsigmoid / logit / expm1`, expanded into
`exp` and `log`) are the model functions (note the argument order: the source takes `x, beta`) -/
theorem sig_c_sigmoid_eq (x β : ℝ) : sig_c_sigmoid x β = sigmoidT β x := by
  first | rfl | (simp only [sig_c_sigmoid, sigmoidT]; ring_nf)
theorem sig_c_sigmoid_inverse_eq (x β : ℝ) : sig_c_sigmoid_inverse x β = sigmoidInvT β x := by
  first | rfl | (simp only [sig_c_sigmoid_inverse, sigmoidInvT]; ring_nf)
theorem sig_c_softplus_eq (x β : ℝ) : sig_c_softplus x β = softplusT β x := by
  first
    | rfl
    | (simp only [sig_c_softplus, softplusT, neg_mul, neg_neg]; ring)
    | (simp only [sig_c_softplus, softplusT]; ring_nf)
theorem sig_c_softplus_inverse_eq (x β : ℝ) : sig_c_softplus_inverse x β = softplusInvT β x := by
  first
    | rfl
    | (simp only [sig_c_softplus_inverse, softplusInvT, neg_mul, neg_sub])
    | (simp only [sig_c_softplus_inverse, softplusInvT, neg_mul, neg_sub]; ring)
    | (simp only [sig_c_softplus_inverse, softplusInvT]; ring_nf)

/-! `ConstraintsOp.forward` / `inverse`: the expression of each branch as it stands in the source (composed of the generated
elementary maps) is the model's `constrainFwd` / `constrainInv` for the corresponding kind of bounds -/
theorem constr_forward_eq (βs βp l u x : ℝ) :
    constr_forward_both x l u βs = constrainFwd βs βp (.fin l) (.fin u) x ∧
    constr_forward_lower x l βp = constrainFwd βs βp (.fin l) .none x ∧
    constr_forward_upper x u βp = constrainFwd βs βp .none (.fin u) x ∧
    constr_forward_none x = constrainFwd βs βp .none .none x := by
  refine ⟨?_, ?_, ?_, ?_⟩
  · first
      | (simp only [constr_forward_both, constrainFwd, sig_c_sigmoid_eq]; done)
      | (simp only [constr_forward_both, constrainFwd, sig_c_sigmoid_eq]; ring_nf)
  · first
      | (simp only [constr_forward_lower, constrainFwd, sig_c_softplus_eq]; done)
      | (simp only [constr_forward_lower, constrainFwd, sig_c_softplus_eq]; ring_nf)
  · first
      | (simp only [constr_forward_upper, constrainFwd, sig_c_softplus_eq]; done)
      | (simp only [constr_forward_upper, constrainFwd, sig_c_softplus_eq]; ring_nf)
  · first
      | rfl
      | (simp only [constr_forward_none, constrainFwd]; done)

theorem constr_inverse_eq (βs βp l u y : ℝ) :
    constr_inverse_both y l u βs = constrainInv βs βp (.fin l) (.fin u) y ∧
    constr_inverse_lower y l βp = constrainInv βs βp (.fin l) .none y ∧
    constr_inverse_upper y u βp = constrainInv βs βp .none (.fin u) y ∧
    constr_inverse_none y = constrainInv βs βp .none .none y := by
  refine ⟨?_, ?_, ?_, ?_⟩
  · first
      | (simp only [constr_inverse_both, constrainInv, sig_c_sigmoid_inverse_eq]; done)
      | (simp only [constr_inverse_both, constrainInv, sig_c_sigmoid_inverse_eq]; ring_nf)
  · first
      | (simp only [constr_inverse_lower, constrainInv, sig_c_softplus_inverse_eq]; done)
      | (simp only [constr_inverse_lower, constrainInv, sig_c_softplus_inverse_eq]; ring_nf)
  · first
      | (simp only [constr_inverse_upper, constrainInv, sig_c_softplus_inverse_eq]; done)
      | (simp only [constr_inverse_upper, constrainInv, sig_c_softplus_inverse_eq]; ring_nf)
  · first
      | rfl
      | (simp only [constr_inverse_none, constrainInv]; done)

end M.SrcL
