import Mrpro.Model.Rotation
import Mathlib.Tactic.Ring
import Mathlib.Tactic.Linarith
import Mathlib.Tactic.NormNum
import Mathlib.Tactic.LinearCombination
import Mathlib.Analysis.SpecialFunctions.Trigonometric.Basic
import Mathlib.Logic.Function.Iterate
/-! Proofs for `Mrpro/Props/C13.lean`. -/
namespace M
variable {K : Type} [CommRing K]

def Mat3.one' : Mat3 K := ⟨1, 0, 0, 0, 1, 0, 0, 0, 1⟩
noncomputable def axisAngle (u : V3 ℝ) (θ : ℝ) : Q ℝ :=
  ⟨Real.sin (θ / 2) * u.x0, Real.sin (θ / 2) * u.x1, Real.sin (θ / 2) * u.x2, Real.cos (θ / 2)⟩

theorem toMat_mul (p q : Q K) : (Q.mul p q).toMat = Mat3.mul p.toMat q.toMat := by
  simp only [Q.mul, Q.toMat, Mat3.mul, two, Mat3.mk.injEq]
  refine ⟨?_, ?_, ?_, ?_, ?_, ?_, ?_, ?_, ?_⟩ <;> ring

theorem sgn_xor (a b : Bool) : (sgn (xor a b) : K) = sgn a * sgn b := by
  cases a <;> cases b <;> simp [sgn]

theorem smul_mul_smul (s t : K) (A B : Mat3 K) :
    Mat3.mul (Mat3.smul s A) (Mat3.smul t B) = Mat3.smul (s * t) (Mat3.mul A B) := by
  simp only [Mat3.mul, Mat3.smul, Mat3.mk.injEq]
  refine ⟨?_, ?_, ?_, ?_, ?_, ?_, ?_, ?_, ?_⟩ <;> ring

theorem rot_toMat_mul (p q : Rot K) : (Rot.mul p q).toMat = Mat3.mul p.toMat q.toMat := by
  simp only [Rot.toMat, Rot.mul, smul_mul_smul, toMat_mul, sgn_xor]

theorem mul_apply (A B : Mat3 K) (v : V3 K) : (Mat3.mul A B).apply v = A.apply (B.apply v) := by
  simp only [Mat3.mul, Mat3.apply, V3.mk.injEq]
  refine ⟨?_, ?_, ?_⟩ <;> ring

theorem rot_apply_mul (p q : Rot K) (v : V3 K) : (Rot.mul p q).apply v = p.apply (q.apply v) := by
  simp only [Rot.apply, rot_toMat_mul, mul_apply]

theorem toMat_orthogonal (q : Q K) :
    Mat3.mul q.toMat q.toMat.transpose = Mat3.smul (q.normSq * q.normSq) Mat3.one' := by
  simp only [Q.toMat, Mat3.mul, Mat3.transpose, Mat3.smul, Mat3.one', Q.normSq, two, Mat3.mk.injEq]
  refine ⟨?_, ?_, ?_, ?_, ?_, ?_, ?_, ?_, ?_⟩ <;> ring

theorem det_smul (s : K) (A : Mat3 K) : (Mat3.smul s A).det = s * s * s * A.det := by
  simp only [Mat3.smul, Mat3.det]; ring

theorem det_toMat (q : Q K) : q.toMat.det = q.normSq * q.normSq * q.normSq := by
  simp only [Q.toMat, Mat3.det, Q.normSq, two]; ring

theorem sgn_cube (b : Bool) : (sgn b : K) * sgn b * sgn b = sgn b := by
  cases b <;> simp [sgn]

theorem rot_det (r : Rot K) : r.toMat.det = sgn r.improper * (r.q.normSq * r.q.normSq * r.q.normSq) := by
  rw [Rot.toMat, det_smul, det_toMat, sgn_cube]

theorem qmul_assoc (p q r : Q K) : Q.mul (Q.mul p q) r = Q.mul p (Q.mul q r) := by
  simp only [Q.mul, Q.mk.injEq]
  refine ⟨?_, ?_, ?_, ?_⟩ <;> ring

theorem normSq_mul (p q : Q K) : (Q.mul p q).normSq = p.normSq * q.normSq := by
  simp only [Q.mul, Q.normSq]; ring

theorem rot_mul_assoc (p q r : Rot K) : Rot.mul (Rot.mul p q) r = Rot.mul p (Rot.mul q r) := by
  simp only [Rot.mul, qmul_assoc, Bool.xor_assoc]

theorem qmul_conj (q : Q K) : Q.mul q q.conj = ⟨0, 0, 0, q.normSq⟩ ∧ Q.mul q.conj q = ⟨0, 0, 0, q.normSq⟩ := by
  simp only [Q.mul, Q.conj, Q.normSq, Q.mk.injEq]
  refine ⟨⟨?_, ?_, ?_, ?_⟩, ⟨?_, ?_, ?_, ?_⟩⟩ <;> ring

theorem rot_mul_inv (r : Rot K) : Rot.mul r r.inv = ⟨⟨0, 0, 0, r.q.normSq⟩, false⟩ ∧ Rot.mul r.inv r = ⟨⟨0, 0, 0, r.q.normSq⟩, false⟩ := by
  simp only [Rot.mul, Rot.inv, (qmul_conj r.q).1, (qmul_conj r.q).2, Bool.xor_self, and_self]

theorem sgn_sq (b : Bool) : (sgn b : K) * sgn b = 1 := by
  cases b <;> simp [sgn]

theorem applyInv_apply (r : Rot K) (v : V3 K) :
    r.applyInv (r.apply v) = ⟨(r.q.normSq * r.q.normSq) * v.x0, (r.q.normSq * r.q.normSq) * v.x1, (r.q.normSq * r.q.normSq) * v.x2⟩ := by
  have h := sgn_sq (K := K) r.improper
  simp only [Rot.applyInv, Rot.apply, Rot.toMat, Q.toMat, Mat3.transpose, Mat3.smul, Mat3.apply,
    Q.normSq, two, V3.mk.injEq]
  generalize (sgn r.improper : K) = s at h
  refine ⟨?_, ?_, ?_⟩
  · linear_combination ((r.q.a * r.q.a + r.q.b * r.q.b + r.q.c * r.q.c + r.q.w * r.q.w) * (r.q.a * r.q.a + r.q.b * r.q.b + r.q.c * r.q.c + r.q.w * r.q.w) * v.x0) * h
  · linear_combination ((r.q.a * r.q.a + r.q.b * r.q.b + r.q.c * r.q.c + r.q.w * r.q.w) * (r.q.a * r.q.a + r.q.b * r.q.b + r.q.c * r.q.c + r.q.w * r.q.w) * v.x1) * h
  · linear_combination ((r.q.a * r.q.a + r.q.b * r.q.b + r.q.c * r.q.c + r.q.w * r.q.w) * (r.q.a * r.q.a + r.q.b * r.q.b + r.q.c * r.q.c + r.q.w * r.q.w) * v.x2) * h

theorem toMat_neg (q : Q K) : q.neg.toMat = q.toMat := by
  simp only [Q.neg, Q.toMat, two, Mat3.mk.injEq]
  refine ⟨?_, ?_, ?_, ?_, ?_, ?_, ?_, ?_, ?_⟩ <;> ring

theorem invertAxes_toMat (r : Rot K) : r.invertAxes.toMat = Mat3.smul (-1) r.toMat := by
  have h : (sgn (!r.improper) : K) = -1 * sgn r.improper := by
    cases r.improper <;> simp [sgn]
  simp only [Rot.invertAxes, Rot.toMat, h, Mat3.smul, Mat3.mk.injEq]
  refine ⟨?_, ?_, ?_, ?_, ?_, ?_, ?_, ?_, ?_⟩ <;> ring

theorem xorN_eq (n : Nat) (b : Bool) : xorN n b = if n % 2 = 1 then b else false := by
  induction n with
  | zero => simp [xorN]
  | succ k ih =>
    rw [xorN, ih]
    rcases Nat.mod_two_eq_zero_or_one k with h | h
    · have h' : (k + 1) % 2 = 1 := by omega
      simp [h, h']
    · have h' : (k + 1) % 2 = 0 := by omega
      simp [h, h']

theorem powFlag_eq_xorN (n : Int) (b : Bool) : powFlag n b = xorN n.natAbs b := by
  rw [xorN_eq, powFlag]
  have : (n % 2 = 1) ↔ (n.natAbs % 2 = 1) := by omega
  simp only [this]

theorem axisAngle_mul (u : V3 ℝ) (hu : u.x0 * u.x0 + u.x1 * u.x1 + u.x2 * u.x2 = 1) (α β : ℝ) :
    Q.mul (axisAngle u α) (axisAngle u β) = axisAngle u (α + β) := by
  simp only [Q.mul, axisAngle, Q.mk.injEq, add_div, Real.sin_add, Real.cos_add]
  refine ⟨?_, ?_, ?_, ?_⟩
  · ring
  · ring
  · ring
  · linear_combination (-Real.sin (α / 2) * Real.sin (β / 2)) * hu

theorem axisAngle_zero (u : V3 ℝ) : axisAngle u 0 = ⟨0, 0, 0, 1⟩ := by
  simp [axisAngle]

theorem axisAngle_pow (u : V3 ℝ) (hu : u.x0 * u.x0 + u.x1 * u.x1 + u.x2 * u.x2 = 1) (θ : ℝ) (n : Nat) :
    (fun p => Q.mul p (axisAngle u θ))^[n] ⟨0, 0, 0, 1⟩ = axisAngle u (n * θ) := by
  induction n with
  | zero => simp [axisAngle_zero]
  | succ k ih =>
    rw [Function.iterate_succ_apply', ih, axisAngle_mul u hu]
    congr 1
    push_cast; ring
end M
