import Mrpro.Model.Resample
import Mathlib.Algebra.Order.Field.Basic
import Mathlib.Tactic.Ring
import Mathlib.Tactic.FieldSimp
import Mathlib.Tactic.Linarith
import Mathlib.Tactic.Positivity
import Mathlib.Tactic.NormNum
import Mathlib.Tactic.Push
/-! Padding-mode coordinate maps of `grid_sample` (`clipCoord`, `reflectCoord`, `padCoord`):
range, identity inside the image, mirror symmetry and periodicity of the reflection. -/
namespace M

/-! ### floor on `Rat` (core `Rat.floor`) -/

theorem rat_floor_eq {a : Rat} {k : Int} (h1 : (k : Rat) ≤ a) (h2 : a < (k : Rat) + 1) :
    a.floor = k := by
  have hle : k ≤ a.floor := Rat.le_floor_iff.2 h1
  have hlt : a.floor < k + 1 := Rat.floor_lt_iff.2 (by push_cast; exact h2)
  omega

/-! ### the triangle wave underlying `reflect_coordinates` -/

/-- triangle wave of period `2 * span` with values in `[0, span]`, written exactly as the
`flips` / `extra` computation of `reflectCoord` (but for every `x`, not only `x ≥ 0`) -/
def triWave (span x : Rat) : Rat :=
  let flips : Int := (x / span).floor
  let extra : Rat := x - (flips : Rat) * span
  if flips % 2 = 0 then extra else span - extra

/-- value of the triangle wave from any decomposition `x = k * span + e`, `0 ≤ e ≤ span`
(closed at the upper end: the two decompositions of a multiple of `span` agree) -/
theorem triWave_decomp {span x e : Rat} {k : Int} (hs : 0 < span)
    (hx : x = (k : Rat) * span + e) (h0 : 0 ≤ e) (h1 : e ≤ span) :
    triWave span x = if k % 2 = 0 then e else span - e := by
  have hne : span ≠ 0 := ne_of_gt hs
  rcases lt_or_eq_of_le h1 with hlt | heq
  · have hdiv : x / span = (k : Rat) + e / span := by rw [hx]; field_simp
    have hf : (x / span).floor = k := by
      apply rat_floor_eq
      · rw [hdiv]; have := div_nonneg h0 hs.le; linarith
      · rw [hdiv]; have : e / span < 1 := (div_lt_one hs).2 hlt; linarith
    unfold triWave
    simp only [hf]
    have he : x - (k : Rat) * span = e := by rw [hx]; ring
    rw [he]
  · have hdiv : x / span = ((k + 1 : Int) : Rat) := by rw [hx, heq]; push_cast; field_simp
    have hf : (x / span).floor = k + 1 := by rw [hdiv]; exact Rat.floor_intCast _
    unfold triWave
    simp only [hf]
    have hx' : x - ((k + 1 : Int) : Rat) * span = 0 := by rw [hx, heq]; push_cast; ring
    rw [hx']
    by_cases hk : k % 2 = 0
    · have hk1 : ¬ ((k + 1) % 2 = 0) := by omega
      rw [if_neg hk1, if_pos hk, heq]; ring
    · have hk1 : (k + 1) % 2 = 0 := by omega
      rw [if_pos hk1, if_neg hk, heq]; ring

/-- the canonical decomposition `x = ⌊x/span⌋ * span + e`, `0 ≤ e < span` -/
theorem exists_decomp {span : Rat} (hs : 0 < span) (x : Rat) :
    ∃ (k : Int) (e : Rat), x = (k : Rat) * span + e ∧ 0 ≤ e ∧ e < span := by
  refine ⟨(x / span).floor, x - ((x / span).floor : Rat) * span, by ring, ?_, ?_⟩
  · have h := Rat.floor_le (x / span)
    have := (le_div_iff₀ hs).1 h
    linarith
  · have h := Rat.lt_floor_add_one (x / span)
    push_cast at h
    have := (div_lt_iff₀ hs).1 h
    linarith

theorem triWave_range {span : Rat} (hs : 0 < span) (x : Rat) :
    0 ≤ triWave span x ∧ triWave span x ≤ span := by
  obtain ⟨k, e, hx, h0, h1⟩ := exists_decomp hs x
  rw [triWave_decomp hs hx h0 h1.le]
  split_ifs <;> constructor <;> linarith

theorem triWave_inside {span x : Rat} (hs : 0 < span) (h0 : 0 ≤ x) (h1 : x ≤ span) :
    triWave span x = x := by
  have hx : x = ((0 : Int) : Rat) * span + x := by push_cast; ring
  rw [triWave_decomp hs hx h0 h1]
  simp

theorem triWave_neg {span : Rat} (hs : 0 < span) (x : Rat) :
    triWave span (-x) = triWave span x := by
  obtain ⟨k, e, hx, h0, h1⟩ := exists_decomp hs x
  have hx' : -x = ((-k - 1 : Int) : Rat) * span + (span - e) := by rw [hx]; push_cast; ring
  rw [triWave_decomp hs hx h0 h1.le, triWave_decomp hs hx' (by linarith) (by linarith)]
  by_cases hk : k % 2 = 0
  · have hk1 : ¬ ((-k - 1) % 2 = 0) := by omega
    rw [if_neg hk1, if_pos hk]; ring
  · have hk1 : (-k - 1) % 2 = 0 := by omega
    rw [if_pos hk1, if_neg hk]

theorem triWave_add_period {span : Rat} (hs : 0 < span) (x : Rat) :
    triWave span (x + 2 * span) = triWave span x := by
  obtain ⟨k, e, hx, h0, h1⟩ := exists_decomp hs x
  have hx' : x + 2 * span = ((k + 2 : Int) : Rat) * span + e := by rw [hx]; push_cast; ring
  rw [triWave_decomp hs hx h0 h1.le, triWave_decomp hs hx' h0 h1.le]
  by_cases hk : k % 2 = 0
  · have hk1 : (k + 2) % 2 = 0 := by omega
    rw [if_pos hk1, if_pos hk]
  · have hk1 : ¬ ((k + 2) % 2 = 0) := by omega
    rw [if_neg hk1, if_neg hk]

/-! ### `reflectCoord` -/

theorem span_pos {tl th : Int} (h : tl < th) : (0 : Rat) < ((th - tl : Int) : Rat) / 2 := by
  have : (0 : Rat) < ((th - tl : Int) : Rat) := by exact_mod_cast (by omega : (0 : Int) < th - tl)
  positivity

/-- `reflectCoord` is the triangle wave of the offset from the lower edge -/
theorem reflectCoord_eq_triWave {tl th : Int} (h : tl < th) (c : Rat) :
    reflectCoord tl th c
      = triWave (((th - tl : Int) : Rat) / 2) (c - (tl : Rat) / 2) + (tl : Rat) / 2 := by
  have hs := span_pos h
  have hne : tl ≠ th := ne_of_lt h
  unfold reflectCoord
  rw [if_neg hne]
  by_cases hc : c - (tl : Rat) / 2 < 0
  · simp only [if_pos hc]
    rw [← triWave_neg hs (c - (tl : Rat) / 2)]
    unfold triWave
    simp only
    split_ifs <;> ring
  · simp only [if_neg hc]
    unfold triWave
    simp only
    split_ifs <;> ring

/-- 5. reflection lands in `[twiceLow/2, twiceHigh/2]` -/
theorem reflectCoord_range {twiceLow twiceHigh : Int} (h : twiceLow < twiceHigh) (c : Rat) :
    (twiceLow : Rat) / 2 ≤ reflectCoord twiceLow twiceHigh c
      ∧ reflectCoord twiceLow twiceHigh c ≤ (twiceHigh : Rat) / 2 := by
  rw [reflectCoord_eq_triWave h]
  obtain ⟨h0, h1⟩ := triWave_range (span_pos h) (c - (twiceLow : Rat) / 2)
  push_cast at h0 h1 ⊢
  constructor <;> linarith

/-- reflection is the identity on `[twiceLow/2, twiceHigh/2]` (both ends included) -/
theorem reflectCoord_inside {twiceLow twiceHigh : Int} (h : twiceLow < twiceHigh) {c : Rat}
    (h0 : (twiceLow : Rat) / 2 ≤ c) (h1 : c ≤ (twiceHigh : Rat) / 2) :
    reflectCoord twiceLow twiceHigh c = c := by
  rw [reflectCoord_eq_triWave h,
    triWave_inside (span_pos h) (by linarith) (by push_cast; linarith)]
  ring

/-- 6a. the reflection law at the lower edge: symmetric about `twiceLow / 2`
(holds also in the degenerate case `twiceLow = twiceHigh`, where both sides are 0) -/
theorem reflectCoord_mirror (twiceLow twiceHigh : Int) (c : Rat) :
    reflectCoord twiceLow twiceHigh ((twiceLow : Rat) - c) = reflectCoord twiceLow twiceHigh c := by
  rcases lt_trichotomy twiceLow twiceHigh with h | h | h
  · rw [reflectCoord_eq_triWave h, reflectCoord_eq_triWave h,
      ← triWave_neg (span_pos h) (c - (twiceLow : Rat) / 2)]
    congr 2; ring
  · unfold reflectCoord; rw [if_pos h, if_pos h]
  · -- `span < 0`: not used by `padCoord`; the two sides still compute the same `a`
    have ha : (if (twiceLow : Rat) - c - (twiceLow : Rat) / 2 < 0
          then -((twiceLow : Rat) - c - (twiceLow : Rat) / 2)
          else (twiceLow : Rat) - c - (twiceLow : Rat) / 2)
        = (if c - (twiceLow : Rat) / 2 < 0 then -(c - (twiceLow : Rat) / 2)
          else c - (twiceLow : Rat) / 2) := by
      rcases lt_trichotomy (c - (twiceLow : Rat) / 2) 0 with hc | hc | hc
      · rw [if_pos hc, if_neg (by linarith)]; ring
      · rw [if_neg (by linarith), if_neg (by linarith)]; linarith
      · rw [if_pos (by linarith), if_neg (by linarith)]; ring
    unfold reflectCoord
    simp only [ha]

/-- the reflection law at the upper edge: symmetric about `twiceHigh / 2` -/
theorem reflectCoord_mirror_high {twiceLow twiceHigh : Int} (h : twiceLow < twiceHigh) (c : Rat) :
    reflectCoord twiceLow twiceHigh ((twiceHigh : Rat) - c) = reflectCoord twiceLow twiceHigh c := by
  rw [reflectCoord_eq_triWave h, reflectCoord_eq_triWave h,
    ← triWave_neg (span_pos h) (c - (twiceLow : Rat) / 2),
    ← triWave_add_period (span_pos h) (-(c - (twiceLow : Rat) / 2))]
  congr 2; push_cast; ring

/-- 6b. periodicity with period `twiceHigh - twiceLow = 2 * span` -/
theorem reflectCoord_periodic {twiceLow twiceHigh : Int} (h : twiceLow < twiceHigh) (c : Rat) :
    reflectCoord twiceLow twiceHigh (c + ((twiceHigh : Rat) - (twiceLow : Rat)))
      = reflectCoord twiceLow twiceHigh c := by
  rw [reflectCoord_eq_triWave h, reflectCoord_eq_triWave h,
    ← triWave_add_period (span_pos h) (c - (twiceLow : Rat) / 2)]
  congr 2; push_cast; ring

/-! ### `clipCoord` -/

/-- 1. -/
theorem clipCoord_range {n : Nat} (hn : 0 < n) (c : Rat) :
    0 ≤ clipCoord n c ∧ clipCoord n c ≤ (n : Rat) - 1 := by
  have h1 : (1 : Rat) ≤ (n : Rat) := by exact_mod_cast hn
  unfold clipCoord
  refine ⟨le_max_left _ _, max_le (by linarith) (min_le_left _ _)⟩

/-- 2. -/
theorem clipCoord_inside {n : Nat} {c : Rat} (h0 : 0 ≤ c) (h1 : c ≤ (n : Rat) - 1) :
    clipCoord n c = c := by
  unfold clipCoord
  rw [min_eq_right h1, max_eq_right h0]

/-! ### `padCoord` -/

/-- 3. border and reflection always sample inside the image -/
theorem padCoord_range {mode : Nat} (alignCorners : Bool) {n : Nat} (hn : 0 < n) (c : Rat)
    (hm : mode = 1 ∨ mode = 2) :
    0 ≤ padCoord mode alignCorners n c ∧ padCoord mode alignCorners n c ≤ (n : Rat) - 1 := by
  rcases hm with rfl | rfl
  · exact clipCoord_range hn c
  · exact clipCoord_range hn _

/-- 4. a padding mode never changes a location inside the image -/
theorem padCoord_inside (mode : Nat) (alignCorners : Bool) {n : Nat} (hn : 0 < n) {c : Rat}
    (h0 : 0 ≤ c) (h1 : c ≤ (n : Rat) - 1) : padCoord mode alignCorners n c = c := by
  match mode with
  | 0 => rfl
  | 1 => exact clipCoord_inside h0 h1
  | 2 =>
    show clipCoord n (if alignCorners then reflectCoord 0 (2 * ((n : Int) - 1)) c
      else reflectCoord (-1) (2 * (n : Int) - 1) c) = c
    cases alignCorners with
    | true =>
      rw [if_pos rfl]
      rcases Nat.eq_or_lt_of_le (Nat.succ_le_of_lt hn) with h | h
      · -- n = 1: `twiceLow = twiceHigh`, the reflection returns 0 = c
        subst h
        have hc : c = 0 := by push_cast at h1; linarith
        subst hc
        have : reflectCoord 0 (2 * (((Nat.succ 0 : Nat) : Int) - 1)) 0 = 0 := by
          unfold reflectCoord; rw [if_pos (by norm_num)]
        rw [this]; exact clipCoord_inside (le_refl _) (by norm_num)
      · have hlt : (0 : Int) < 2 * ((n : Int) - 1) := by omega
        rw [reflectCoord_inside hlt (by push_cast; linarith) (by push_cast; linarith)]
        exact clipCoord_inside h0 h1
    | false =>
      rw [if_neg (by simp)]
      have hlt : (-1 : Int) < 2 * (n : Int) - 1 := by omega
      rw [reflectCoord_inside hlt (by push_cast; linarith) (by push_cast; linarith)]
      exact clipCoord_inside h0 h1
  | (k + 3) => rfl

/-! ### concrete values -/

example : padCoord 2 false 4 (-3/2) = 1/2 := by decide +kernel
example : padCoord 2 true 4 (7/2) = 5/2 := by decide +kernel
example : padCoord 1 false 4 5 = 3 := by decide +kernel
example : padCoord 1 true 4 (-2) = 0 := by decide +kernel
example : padCoord 0 true 4 (-2) = -2 := by decide +kernel
example : padCoord 2 true 1 0 = 0 := by decide +kernel
example : padCoord 2 true 4 3 = 3 := by decide +kernel
example : padCoord 2 false 4 (9/2) = 5/2 := by decide +kernel
example : padCoord 2 false 4 (-11/2) = 5/2 := by decide +kernel
example : padCoord 2 true 4 (-1) = 1 := by decide +kernel
example : padCoord 2 true 4 7 = 1 := by decide +kernel
example : reflectCoord 0 6 (13/2) = 1/2 := by decide +kernel
example : reflectCoord (-1) 7 (-1 - 5/4) = reflectCoord (-1) 7 (5/4) := by decide +kernel

end M
