import Mrpro.Model.Load
import Mathlib.Data.List.Sort
import Mathlib.Data.List.Perm.Basic
import Mathlib.Data.List.Nodup
import Mathlib.Tactic.Linarith
/-! Proofs for `Mrpro/Props/C14.lean`. -/
namespace M

theorem lexLE_total : ∀ a b : List Nat, (lexLE a b || lexLE b a) = true
  | [], _ => by simp [lexLE]
  | _ :: _, [] => by simp [lexLE]
  | a :: as, b :: bs => by
    have ih := lexLE_total as bs
    simp only [lexLE]
    rcases Nat.lt_trichotomy a b with h | h | h
    · simp [h]
    · subst h; simpa using ih
    · have : ¬ a < b := by omega
      simp [h, this]

theorem lexLE_trans : ∀ a b c : List Nat, lexLE a b = true → lexLE b c = true → lexLE a c = true
  | [], _, _ => by simp [lexLE]
  | _ :: _, [], _ => by simp [lexLE]
  | _ :: _, _ :: _, [] => by simp [lexLE]
  | a :: as, b :: bs, c :: cs => by
    have ih := lexLE_trans as bs cs
    simp only [lexLE]
    intro h1 h2
    split_ifs at h1 h2 ⊢ <;> first | rfl | (exfalso; omega) | exact ih h1 h2

theorem lexLE_antisymm : ∀ a b : List Nat, lexLE a b = true → lexLE b a = true →
    a.length = b.length → a = b
  | [], [] => by simp
  | [], _ :: _ => by simp
  | _ :: _, [] => by simp
  | a :: as, b :: bs => by
    have ih := lexLE_antisymm as bs
    simp only [lexLE, List.length_cons]
    intro h1 h2 h3
    split_ifs at h1 h2 <;> first | (exfalso; omega) | skip
    have hab : a = b := by omega
    rw [hab, ih h1 h2 (by omega)]

theorem Acq.le_total (a b : Acq) : (Acq.le a b || Acq.le b a) = true := lexLE_total _ _
theorem Acq.le_trans (a b c : Acq) : Acq.le a b = true → Acq.le b c = true → Acq.le a c = true :=
  lexLE_trans _ _ _

theorem Acq.le_antisymm_of {l : List Acq} (hkeys : (l.map (·.key)).Nodup)
    (hlen : ∀ a ∈ l, ∀ b ∈ l, a.key.length = b.key.length) {a b : Acq} (ha : a ∈ l) (hb : b ∈ l)
    (h1 : Acq.le a b = true) (h2 : Acq.le b a = true) : a = b := by
  apply List.inj_on_of_nodup_map hkeys ha hb
  apply List.reverse_injective
  exact lexLE_antisymm _ _ h1 h2 (by simpa using hlen a ha b hb)

theorem loadOrder_perm (l : List Acq) : (loadOrder l).Perm l := List.mergeSort_perm l _
theorem loadOrder_sorted (l : List Acq) : (loadOrder l).Pairwise (fun a b => Acq.le a b = true) :=
  List.pairwise_mergeSort Acq.le_trans Acq.le_total l

/-- a sorted permutation of `l` is `loadOrder l` -/
theorem eq_loadOrder_of_sorted_perm {l s : List Acq} (hkeys : (l.map (·.key)).Nodup)
    (hlen : ∀ a ∈ l, ∀ b ∈ l, a.key.length = b.key.length)
    (hp : s.Perm l) (hs : s.Pairwise (fun a b => Acq.le a b = true)) : s = loadOrder l := by
  refine List.Perm.eq_of_pairwise ?_ hs (loadOrder_sorted l) (hp.trans (loadOrder_perm l).symm)
  intro a b ha hb h1 h2
  exact Acq.le_antisymm_of hkeys hlen (hp.subset ha) ((loadOrder_perm l).subset hb) h1 h2

theorem load_perm_invariant (l₁ l₂ : List Acq) (h : l₁.Perm l₂)
    (hkeys : (l₁.map (·.key)).Nodup) (hlen : ∀ a ∈ l₁, ∀ b ∈ l₁, a.key.length = b.key.length) :
    loadOrder l₁ = loadOrder l₂ :=
  (eq_loadOrder_of_sorted_perm hkeys hlen ((loadOrder_perm l₂).trans h.symm) (loadOrder_sorted l₂)).symm

theorem filter_commutes (l : List Acq) (p : Acq → Bool)
    (hkeys : (l.map (·.key)).Nodup) (hlen : ∀ a ∈ l, ∀ b ∈ l, a.key.length = b.key.length) :
    loadOrder (l.filter p) = (loadOrder l).filter p := by
  symm
  apply eq_loadOrder_of_sorted_perm
  · exact hkeys.sublist ((List.filter_sublist (l := l) (p := p)).map _)
  · intro a ha b hb
    exact hlen a (List.mem_of_mem_filter ha) b (List.mem_of_mem_filter hb)
  · exact (loadOrder_perm l).filter p
  · exact (loadOrder_sorted l).filter p

theorem idxOf_eq_rank {α : Type} [DecidableEq α] (le : α → α → Bool) (a : α) :
    ∀ s : List α, s.Pairwise (fun x y => le x y = true) → s.Nodup → a ∈ s →
      (∀ x ∈ s, ∀ y ∈ s, le x y = true → le y x = true → x = y) →
      s.idxOf a = (s.filter (fun b => le b a && b != a)).length
  | [], _, _, h, _ => by simp at h
  | x :: t, hs, hn, ha, hanti => by
    rw [List.pairwise_cons] at hs
    rw [List.nodup_cons] at hn
    by_cases hx : x = a
    · subst hx
      have : t.filter (fun b => le b x && b != x) = [] := by
        rw [List.filter_eq_nil_iff]
        intro b hb
        simp only [Bool.and_eq_true, bne_iff_ne, ne_eq, not_and, not_not]
        intro hle
        exact hanti b (List.mem_cons_of_mem _ hb) x List.mem_cons_self hle (hs.1 b hb)
      simp [this]
    · have hat : a ∈ t := by
        rcases List.mem_cons.1 ha with h | h
        · exact absurd h.symm hx
        · exact h
      have ih := idxOf_eq_rank le a t hs.2 hn.2 hat
        (fun x hx y hy => hanti x (List.mem_cons_of_mem _ hx) y (List.mem_cons_of_mem _ hy))
      have hxa : le x a = true := hs.1 a hat
      rw [List.idxOf_cons, List.filter_cons]
      have hbeq : (x == a) = false := by simpa using hx
      simp [hbeq, hx, hxa, ih]

theorem position_is_rank (l : List Acq) (a : Acq) (ha : a ∈ l)
    (hkeys : (l.map (·.key)).Nodup) (hlen : ∀ a ∈ l, ∀ b ∈ l, a.key.length = b.key.length) :
    (loadOrder l).idxOf a = (l.filter (fun b => Acq.le b a && b != a)).length := by
  have hp := loadOrder_perm l
  rw [idxOf_eq_rank Acq.le a (loadOrder l) (loadOrder_sorted l)
    (hp.nodup_iff.2 (List.Nodup.of_map _ hkeys)) (hp.mem_iff.2 ha)
    (fun x hx y hy => Acq.le_antisymm_of hkeys hlen (hp.subset hx) (hp.subset hy))]
  exact (hp.filter _).length_eq

theorem kfreq_formula (n : Nat) (c : Int) (j : Nat) (hj : j < n) :
    kfreq n c false j = j - c ∧ kfreq n c true j = kfreq n c false (n - 1 - j) := by
  have _ := hj
  simp [kfreq]
/-! ### radial phase encoding -/

theorem rpeKrad_centre (shifts : List Rat) (centre : Int) (k1 k2 : Nat) (h : (k1 : Int) = centre) :
    rpeKrad shifts centre k1 k2 = 0 := by
  simp [rpeKrad, h]

theorem rpeKrad_periodic (shifts : List Rat) (centre : Int) (k1 k2 : Nat) :
    rpeKrad shifts centre k1 (k2 + shifts.length) = rpeKrad shifts centre k1 k2 := by
  simp [rpeKrad]

theorem rpeKrad_mod (shifts : List Rat) (centre : Int) (k1 k2 : Nat) :
    rpeKrad shifts centre k1 (k2 % shifts.length) = rpeKrad shifts centre k1 k2 := by
  simp [rpeKrad]

theorem rpeKrad_strictMono (shifts : List Rat) (centre : Int) (k1 k1' k2 : Nat)
    (hs : ∀ s ∈ shifts, 0 ≤ s ∧ s < 1) (h : k1 < k1') :
    rpeKrad shifts centre k1 k2 < rpeKrad shifts centre k1' k2 := by
  have hsh : 0 ≤ shifts.getD (k2 % shifts.length) 0 ∧ shifts.getD (k2 % shifts.length) 0 < 1 := by
    by_cases hl : shifts.length = 0
    · have : shifts = [] := List.length_eq_zero_iff.mp hl
      subst this; simp
    · have hlt : k2 % shifts.length < shifts.length := Nat.mod_lt _ (Nat.pos_of_ne_zero hl)
      rw [List.getD_eq_getElem?_getD, List.getElem?_eq_getElem hlt]
      exact hs _ (List.getElem_mem hlt)
  obtain ⟨h0, h1⟩ := hsh
  unfold rpeKrad
  simp only
  have hk : ((k1 : Int) - centre) < ((k1' : Int) - centre) := by omega
  set r : Int := (k1 : Int) - centre with hr
  set r' : Int := (k1' : Int) - centre with hr'
  by_cases a : r = 0 <;> by_cases b : r' = 0
  · omega
  · rw [if_pos a, if_neg b]
    have : (1 : Rat) ≤ (r' : Rat) := by exact_mod_cast (by omega : (1 : Int) ≤ r')
    linarith
  · rw [if_neg a, if_pos b]
    have : (r : Rat) ≤ -1 := by exact_mod_cast (by omega : r ≤ -1)
    linarith
  · rw [if_neg a, if_neg b]
    have : (r : Rat) < (r' : Rat) := by exact_mod_cast hk
    linarith

end M
