import Mrpro.Model.RotBatch
import Mrpro.Lemmas.RotationL
/-! The batch of rotations (`Mrpro/Model/RotBatch.lean`): every edit that the Python performs on the two
tensors `_quaternions` / `_is_improper` separately is the element-wise edit of the list of single rotations,
flags included. -/
namespace M

/-! ### one tensor -/
section ListL
variable {α β γ : Type}

theorem zipWith_set (f : α → β → γ) (xs : List α) (ys : List β) (i : Nat) (a : α) (b : β) :
    List.zipWith f (xs.set i a) (ys.set i b) = (List.zipWith f xs ys).set i (f a b) := by
  induction xs generalizing ys i with
  | nil => simp
  | cons x xs ih =>
    cases ys with
    | nil => simp
    | cons y ys =>
      cases i with
      | zero => simp
      | succ i => simp [ih]

@[simp] theorem writeList_nil_idx (xs : List α) (vs : List α) : writeList xs [] vs = xs := rfl

@[simp] theorem writeList_nil_vs (xs : List α) (idx : List Nat) : writeList xs idx [] = xs := by
  simp [writeList]

@[simp] theorem writeList_cons (xs : List α) (i : Nat) (idx : List Nat) (v : α) (vs : List α) :
    writeList xs (i :: idx) (v :: vs) = writeList (xs.set i v) idx vs := rfl

@[simp] theorem length_writeList (xs : List α) (idx : List Nat) (vs : List α) :
    (writeList xs idx vs).length = xs.length := by
  induction idx generalizing xs vs with
  | nil => rfl
  | cons i idx ih => cases vs with
    | nil => simp
    | cons v vs => simp [ih]

/-- writing into two tensors with the same indices = writing the pairs -/
theorem zipWith_writeList (f : α → β → γ) (xs : List α) (ys : List β) (idx : List Nat) (as : List α)
    (bs : List β) (h : as.length = bs.length) :
    List.zipWith f (writeList xs idx as) (writeList ys idx bs)
      = writeList (List.zipWith f xs ys) idx (List.zipWith f as bs) := by
  induction idx generalizing xs ys as bs with
  | nil => rfl
  | cons i idx ih =>
    cases as with
    | nil => cases bs with
      | nil => simp
      | cons b bs => simp at h
    | cons a as => cases bs with
      | nil => simp at h
      | cons b bs =>
        simp only [List.length_cons, Nat.add_right_cancel_iff] at h
        simp only [writeList_cons, List.zipWith_cons_cons, ih _ _ _ _ h, zipWith_set]

theorem map_writeList (f : α → β) (xs : List α) (idx : List Nat) (vs : List α) :
    (writeList xs idx vs).map f = writeList (xs.map f) idx (vs.map f) := by
  induction idx generalizing xs vs with
  | nil => rfl
  | cons i idx ih => cases vs with
    | nil => simp
    | cons v vs => simp [ih, List.map_set]

/-- a slot that is not addressed keeps its content -/
theorem getElem?_writeList_of_not_mem (xs : List α) (idx : List Nat) (vs : List α) (i : Nat)
    (h : i ∉ idx) : (writeList xs idx vs)[i]? = xs[i]? := by
  induction idx generalizing xs vs with
  | nil => rfl
  | cons j idx ih => cases vs with
    | nil => simp
    | cons v vs =>
      simp only [List.mem_cons, not_or] at h
      rw [writeList_cons, ih _ _ h.2, List.getElem?_set_ne (Ne.symm h.1)]

/-- the writes happen in order … -/
theorem writeList_snoc (xs : List α) (idx : List Nat) (vs : List α) (i : Nat) (v : α)
    (h : idx.length = vs.length) :
    writeList xs (idx ++ [i]) (vs ++ [v]) = (writeList xs idx vs).set i v := by
  simp [writeList, List.zip_append h]

/-- … so for a repeated index the last write wins -/
theorem getElem?_writeList_last (xs : List α) (idx : List Nat) (vs : List α) (i : Nat) (v : α)
    (h : idx.length = vs.length) (hi : i < xs.length) :
    (writeList xs (idx ++ [i]) (vs ++ [v]))[i]? = some v := by
  rw [writeList_snoc _ _ _ _ _ h, List.getElem?_set_self (by simpa using hi)]

/-- an addressed slot (in range, with a value supplied for every index) holds one of the written values -/
theorem getElem?_writeList_of_mem (xs : List α) (idx : List Nat) (vs : List α) (i : Nat)
    (hi : i ∈ idx) (hlen : idx.length ≤ vs.length) (hlt : i < xs.length) :
    ∃ v ∈ vs, (writeList xs idx vs)[i]? = some v := by
  induction idx generalizing xs vs with
  | nil => simp at hi
  | cons j idx ih =>
    cases vs with
    | nil => simp at hlen
    | cons v vs =>
      rw [writeList_cons]
      by_cases hmem : i ∈ idx
      · obtain ⟨w, hw, h⟩ := ih (xs.set j v) vs hmem (by simpa using hlen) (by simpa using hlt)
        exact ⟨w, by simp [hw], h⟩
      · have hij : i = j := by
          rcases List.mem_cons.1 hi with h | h
          · exact h
          · exact absurd h hmem
        subst hij
        refine ⟨v, by simp, ?_⟩
        rw [getElem?_writeList_of_not_mem _ _ _ _ hmem, List.getElem?_set_self hlt]

theorem mem_of_mem_bcast (k : Nat) (vs : List α) (v : α) (h : v ∈ bcast k vs) : v ∈ vs := by
  rcases vs with _ | ⟨a, _ | ⟨a', vs⟩⟩
  · simp [bcast] at h
  · simp only [bcast, List.mem_replicate] at h; simp [h.2]
  · simpa [bcast] using h

theorem length_bcast (k : Nat) (vs : List α) :
    (bcast k vs).length = if vs.length = 1 then k else vs.length := by
  rcases vs with _ | ⟨a, _ | ⟨a', vs⟩⟩ <;> simp [bcast]

theorem bcast_zipWith (f : α → β → γ) (k : Nat) (as : List α) (bs : List β) (h : as.length = bs.length) :
    bcast k (List.zipWith f as bs) = List.zipWith f (bcast k as) (bcast k bs) := by
  rcases as with _ | ⟨a, _ | ⟨a', as⟩⟩ <;> rcases bs with _ | ⟨b, _ | ⟨b', bs⟩⟩ <;>
    simp [bcast] at h ⊢

theorem map_bcast (f : α → β) (k : Nat) (vs : List α) : (bcast k vs).map f = bcast k (vs.map f) := by
  rcases vs with _ | ⟨a, _ | ⟨a', vs⟩⟩ <;> simp [bcast]

@[simp] theorem gather?_nil (xs : List α) : gather? xs [] = some [] := rfl

theorem gather?_cons (xs : List α) (i : Nat) (idx : List Nat) :
    gather? xs (i :: idx) = match xs[i]?, gather? xs idx with
      | some x, some r => some (x :: r)
      | _, _ => none := rfl

/-- indexing two tensors with the same indices = indexing the pairs -/
theorem gather?_zipWith (f : α → β → γ) (xs : List α) (ys : List β) (idx : List Nat) :
    gather? (List.zipWith f xs ys) idx = match gather? xs idx, gather? ys idx with
      | some a, some b => some (List.zipWith f a b)
      | _, _ => none := by
  induction idx with
  | nil => rfl
  | cons i idx ih =>
    rw [gather?_cons, gather?_cons, gather?_cons, ih, List.getElem?_zipWith]
    cases xs[i]? <;> cases ys[i]? <;> cases gather? xs idx <;> cases gather? ys idx <;> rfl

theorem gather?_eq_some (xs : List α) (idx : List Nat) (d : α) (h : ∀ i ∈ idx, i < xs.length) :
    gather? xs idx = some (idx.map (fun i => xs.getD i d)) := by
  induction idx with
  | nil => rfl
  | cons i idx ih =>
    have hi : i < xs.length := h i (by simp)
    rw [gather?_cons, ih (fun j hj => h j (by simp [hj])), List.getElem?_eq_getElem hi]
    simp [List.getD, List.getElem?_eq_getElem hi]

/-- an index out of range is rejected (`IndexError`) -/
theorem gather?_eq_none (xs : List α) (idx : List Nat) (h : ∃ i ∈ idx, xs.length ≤ i) :
    gather? xs idx = none := by
  induction idx with
  | nil => simp at h
  | cons i idx ih =>
    rw [gather?_cons]
    obtain ⟨j, hj, hle⟩ := h
    rcases List.mem_cons.1 hj with rfl | hj'
    · rw [List.getElem?_eq_none hle]
    · rw [ih ⟨j, hj', hle⟩]; cases xs[i]? <;> rfl

theorem length_of_gather? (xs : List α) (idx : List Nat) (r : List α) (h : gather? xs idx = some r) :
    r.length = idx.length := by
  induction idx generalizing r with
  | nil => simp at h; subst h; rfl
  | cons i idx ih =>
    rw [gather?_cons] at h
    cases hx : xs[i]? <;> cases hg : gather? xs idx <;> rw [hx, hg] at h <;> simp at h
    subst h
    simp [ih _ hg]

theorem tensorSet?_eq (xs : List α) (idx : List Nat) (vs : List α) (n m : Nat) (hn : xs.length = n)
    (hm : vs.length = m) :
    tensorSet? xs idx vs
      = if idx.all (· < n) ∧ (if m = 1 then idx.length else m) = idx.length then
          some (writeList xs idx (bcast idx.length vs)) else none := by
  subst hn hm
  simp only [tensorSet?, length_bcast]

end ListL

/-! ### quaternion components -/
section CompL
variable {K : Type}

/-- components are addressed as `0, 1, 2` and (anything else) `3` -/
def compIx (c : Nat) : Nat := if c < 3 then c else 3

theorem Q.getComp_setComp_self (q : Q K) (c : Nat) (x : K) : (q.setComp c x).getComp c = x := by
  unfold Q.setComp Q.getComp
  by_cases h0 : c = 0
  · simp [h0]
  · by_cases h1 : c = 1
    · simp [h1]
    · by_cases h2 : c = 2
      · simp [h2]
      · simp [h0, h1, h2]

theorem Q.getComp_setComp_ne (q : Q K) (c c' : Nat) (x : K) (h : compIx c ≠ compIx c') :
    (q.setComp c x).getComp c' = q.getComp c' := by
  have h3 : ¬ (3 ≤ c ∧ 3 ≤ c') := by
    rintro ⟨h1, h2⟩; apply h; unfold compIx
    rw [if_neg (by omega), if_neg (by omega)]
  rcases c with _ | _ | _ | c <;> rcases c' with _ | _ | _ | c' <;>
    first
    | (exfalso; exact h3 ⟨by omega, by omega⟩)
    | (simp [compIx, Q.setComp, Q.getComp] at h ⊢)

@[simp] theorem setCompAt_nil (c i : Nat) (x : K) : setCompAt c ([] : List (Q K)) i x = [] := by
  simp [setCompAt]
@[simp] theorem setCompAt_cons_zero (c : Nat) (q : Q K) (qs : List (Q K)) (x : K) :
    setCompAt c (q :: qs) 0 x = q.setComp c x :: qs := by
  simp [setCompAt]
@[simp] theorem setCompAt_cons_succ (c : Nat) (q : Q K) (qs : List (Q K)) (i : Nat) (x : K) :
    setCompAt c (q :: qs) (i + 1) x = q :: setCompAt c qs i x := by
  unfold setCompAt
  simp only [List.getElem?_cons_succ]
  cases qs[i]? <;> simp

@[simp] theorem rotSetCompAt_nil (c i : Nat) (x : K) : rotSetCompAt c ([] : List (Rot K)) i x = [] := by
  simp [rotSetCompAt]
@[simp] theorem rotSetCompAt_cons_zero (c : Nat) (r : Rot K) (rs : List (Rot K)) (x : K) :
    rotSetCompAt c (r :: rs) 0 x = r.setComp c x :: rs := by
  simp [rotSetCompAt]
@[simp] theorem rotSetCompAt_cons_succ (c : Nat) (r : Rot K) (rs : List (Rot K)) (i : Nat) (x : K) :
    rotSetCompAt c (r :: rs) (i + 1) x = r :: rotSetCompAt c rs i x := by
  unfold rotSetCompAt
  simp only [List.getElem?_cons_succ]
  cases rs[i]? <;> simp

@[simp] theorem length_setCompAt (c : Nat) (qs : List (Q K)) (i : Nat) (x : K) :
    (setCompAt c qs i x).length = qs.length := by
  unfold setCompAt; cases qs[i]? <;> simp

theorem zipWith_setCompAt (c : Nat) (qs : List (Q K)) (fl : List Bool) (i : Nat) (x : K) :
    List.zipWith Rot.mk (setCompAt c qs i x) fl = rotSetCompAt c (List.zipWith Rot.mk qs fl) i x := by
  induction qs generalizing fl i with
  | nil => simp
  | cons q qs ih =>
    cases fl with
    | nil => simp
    | cons f fl =>
      cases i with
      | zero => simp [Rot.setComp]
      | succ i => simp [ih]

theorem map_getComp_setCompAt (c c' : Nat) (qs : List (Q K)) (i : Nat) (x : K)
    (h : compIx c ≠ compIx c') :
    (setCompAt c qs i x).map (fun q => q.getComp c') = qs.map (fun q => q.getComp c') := by
  induction qs generalizing i with
  | nil => simp
  | cons q qs ih =>
    cases i with
    | zero => simp [Q.getComp_setComp_ne _ _ _ _ h]
    | succ i => simp [ih]

theorem length_foldl_setCompAt (c : Nat) (ps : List (Nat × K)) (qs : List (Q K)) :
    (ps.foldl (fun acc p => setCompAt c acc p.1 p.2) qs).length = qs.length := by
  induction ps generalizing qs with
  | nil => rfl
  | cons p ps ih => simp [ih]

theorem zipWith_foldl_setCompAt (c : Nat) (ps : List (Nat × K)) (qs : List (Q K)) (fl : List Bool) :
    List.zipWith Rot.mk (ps.foldl (fun acc p => setCompAt c acc p.1 p.2) qs) fl
      = ps.foldl (fun acc p => rotSetCompAt c acc p.1 p.2) (List.zipWith Rot.mk qs fl) := by
  induction ps generalizing qs with
  | nil => rfl
  | cons p ps ih => simp [ih, zipWith_setCompAt]

theorem map_getComp_foldl_setCompAt (c c' : Nat) (ps : List (Nat × K)) (qs : List (Q K))
    (h : compIx c ≠ compIx c') :
    (ps.foldl (fun acc p => setCompAt c acc p.1 p.2) qs).map (fun q => q.getComp c')
      = qs.map (fun q => q.getComp c') := by
  induction ps generalizing qs with
  | nil => rfl
  | cons p ps ih => simp [ih, map_getComp_setCompAt _ _ _ _ _ h]

end CompL

/-! ### the batch -/
namespace RotBatch
variable {K : Type}

theorem length_toList (b : RotBatch K) (h : b.WF) : b.toList.length = b.qs.length := by
  unfold WF at h; simp [toList, h]

theorem toList_ofList (rs : List (Rot K)) : (ofList rs).toList = rs := by
  induction rs with
  | nil => rfl
  | cons r rs ih =>
    simp only [ofList, toList, List.map_cons, List.zipWith_cons_cons] at ih ⊢
    rw [ih]

theorem wf_ofList (rs : List (Rot K)) : (ofList rs).WF := by simp [ofList, WF]

theorem ofList_toList (b : RotBatch K) (h : b.WF) : ofList b.toList = b := by
  obtain ⟨qs, fl⟩ := b
  unfold WF at h
  simp only at h
  induction qs generalizing fl with
  | nil => cases fl with
    | nil => rfl
    | cons f fl => simp at h
  | cons q qs ih => cases fl with
    | nil => simp at h
    | cons f fl =>
      have := ih fl (by simpa using h)
      simp only [ofList, toList, List.zipWith_cons_cons, List.map_cons, mk.injEq] at this ⊢
      simp [this.1, this.2]

/-! #### `__setitem__` -/

/-- item assignment on the two tensors = element-wise assignment of the `Rot` values, in order, a single
value being broadcast: the flag of an overwritten slot is the flag of the assigned value (a stale flag
cannot survive) -/
theorem toList_setIdx (b v : RotBatch K) (idx : List Nat) (hv : v.WF) :
    (b.setIdx idx v).toList = writeList b.toList idx (bcast idx.length v.toList) := by
  unfold WF at hv
  have hl : (bcast idx.length v.qs).length = (bcast idx.length v.flags).length := by
    simp [length_bcast, hv]
  simp only [setIdx, toList, zipWith_writeList _ _ _ _ _ _ hl, bcast_zipWith _ _ _ _ hv]

theorem wf_setIdx (b v : RotBatch K) (idx : List Nat) (hb : b.WF) : (b.setIdx idx v).WF := by
  unfold WF at hb ⊢; simp [setIdx, hb]

/-- slots that are not addressed keep their rotation -/
theorem toList_setIdx_of_not_mem (b v : RotBatch K) (idx : List Nat) (hv : v.WF) (i : Nat)
    (hi : i ∉ idx) : (b.setIdx idx v).toList[i]? = b.toList[i]? := by
  rw [toList_setIdx _ _ _ hv, getElem?_writeList_of_not_mem _ _ _ _ hi]

theorem improper_mem_flags (v : RotBatch K) (r : Rot K) (h : r ∈ v.toList) : r.improper ∈ v.flags := by
  obtain ⟨qs, fl⟩ := v
  simp only [toList] at h ⊢
  induction qs generalizing fl with
  | nil => simp at h
  | cons q qs ih => cases fl with
    | nil => simp at h
    | cons f fl =>
      simp only [List.zipWith_cons_cons, List.mem_cons] at h ⊢
      rcases h with rfl | h
      · exact Or.inl rfl
      · exact Or.inr (ih fl h)

/-- an addressed slot holds, after the assignment, one of the assigned rotations — quaternion *and* flag -/
theorem toList_setIdx_of_mem (b v : RotBatch K) (idx : List Nat) (hb : b.WF) (hv : v.WF)
    (hk : v.size = 1 ∨ v.size = idx.length) (i : Nat) (hi : i ∈ idx) (hlt : i < b.size) :
    ∃ r ∈ v.toList, (b.setIdx idx v).toList[i]? = some r := by
  rw [toList_setIdx _ _ _ hv]
  have hl : idx.length ≤ (bcast idx.length v.toList).length := by
    rw [length_bcast, length_toList v hv]
    unfold size at hk
    rcases hk with h | h
    · simp [h]
    · split <;> omega
  obtain ⟨r, hr, h⟩ := getElem?_writeList_of_mem b.toList idx _ i hi hl
    (by rw [length_toList b hb]; exact hlt)
  exact ⟨r, mem_of_mem_bcast _ _ _ hr, h⟩

/-- assigning an all-proper value: the flags of the addressed slots become `false`, whatever they were -/
theorem improper_setIdx_of_proper (b v : RotBatch K) (idx : List Nat) (hb : b.WF) (hv : v.WF)
    (hk : v.size = 1 ∨ v.size = idx.length) (hp : ∀ f ∈ v.flags, f = false) (i : Nat) (hi : i ∈ idx)
    (hlt : i < b.size) : (b.setIdx idx v).toList[i]?.map Rot.improper = some false := by
  obtain ⟨r, hr, h⟩ := toList_setIdx_of_mem b v idx hb hv hk i hi hlt
  rw [h, Option.map_some]
  exact congrArg some (hp _ (improper_mem_flags v r hr))

/-- with torch's checks: the two separately checked writes succeed exactly when the element-wise
assignment does, and then agree with it -/
theorem toList_setIdx? (b v : RotBatch K) (idx : List Nat) (hb : b.WF) (hv : v.WF) :
    (b.setIdx? idx v).map toList = tensorSet? b.toList idx v.toList := by
  have hbl := length_toList b hb
  have hvl := length_toList v hv
  have h := toList_setIdx b v idx hv
  unfold WF at hb hv
  unfold setIdx? 
  rw [tensorSet?_eq b.qs idx v.qs _ _ rfl rfl, tensorSet?_eq b.flags idx v.flags _ _ hb.symm hv.symm,
    tensorSet?_eq b.toList idx v.toList _ _ hbl hvl]
  by_cases hc : (idx.all (· < b.qs.length) ∧
      (if v.qs.length = 1 then idx.length else v.qs.length) = idx.length)
  · simp only [if_pos hc, Option.map_some, ← h]; rfl
  · simp only [if_neg hc]; rfl

theorem wf_setIdx? (b v r : RotBatch K) (idx : List Nat) (hb : b.WF)
    (h : b.setIdx? idx v = some r) : r.WF := by
  unfold setIdx? tensorSet? at h
  unfold WF at hb ⊢
  split at h
  · rename_i q f hq hf
    simp only [Option.some.injEq] at h
    subst h
    split at hq <;> simp only [Option.some.injEq, reduceCtorEq] at hq
    split at hf <;> simp only [Option.some.injEq, reduceCtorEq] at hf
    subst hq hf
    simp [hb]
  · simp at h

/-- on the matrices: the positions `idx` of the list of matrices are replaced by the matrices of `v` -/
theorem toMat_setIdx [Add K] [Sub K] [Mul K] [Neg K] [OfNat K 1] (b v : RotBatch K) (idx : List Nat)
    (hv : v.WF) :
    (b.setIdx idx v).toList.map Rot.toMat
      = writeList (b.toList.map Rot.toMat) idx (bcast idx.length (v.toList.map Rot.toMat)) := by
  rw [toList_setIdx _ _ _ hv, map_writeList, map_bcast]

/-- the flags alone: the flag tensor after the assignment is the list of flags of the element-wise result -/
theorem improper_setIdx (b v : RotBatch K) (idx : List Nat) (hv : v.WF) :
    (b.setIdx idx v).toList.map Rot.improper
      = writeList (b.toList.map Rot.improper) idx (bcast idx.length (v.toList.map Rot.improper)) := by
  rw [toList_setIdx _ _ _ hv, map_writeList, map_bcast]

/-! #### `__getitem__` -/

theorem toList_getIdx? (b : RotBatch K) (idx : List Nat) :
    (b.getIdx? idx).map toList = gather? b.toList idx := by
  unfold getIdx? toList
  rw [gather?_zipWith]
  cases gather? b.qs idx <;> cases gather? b.flags idx <;> rfl

/-- in range: the selected rotations, in the order of the indices -/
theorem toList_getIdx?_of_lt (b : RotBatch K) (idx : List Nat) (d : Rot K) (hb : b.WF)
    (h : ∀ i ∈ idx, i < b.size) :
    (b.getIdx? idx).map toList = some (idx.map (fun i => b.toList.getD i d)) := by
  rw [toList_getIdx?, gather?_eq_some]
  intro i hi
  rw [length_toList b hb]; exact h i hi

/-- out of range: rejected -/
theorem getIdx?_eq_none (b : RotBatch K) (idx : List Nat) (h : ∃ i ∈ idx, b.size ≤ i) :
    b.getIdx? idx = none := by
  unfold getIdx?
  rw [gather?_eq_none b.qs idx h]

theorem wf_getIdx? (b r : RotBatch K) (idx : List Nat) (h : b.getIdx? idx = some r) : r.WF := by
  unfold getIdx? at h
  unfold WF
  split at h
  · rename_i q f hq hf
    simp only [Option.some.injEq] at h
    subst h
    simp [length_of_gather? _ _ _ hq, length_of_gather? _ _ _ hf]
  · simp at h

/-- reading back what was written: `b[idx] = v; b[idx]` gives `v` for distinct indices in range -/
theorem getIdx?_setIdx_single (b v : RotBatch K) (i : Nat) (hb : b.WF) (hv : v.WF) (h1 : v.size = 1)
    (hi : i < b.size) : ((b.setIdx [i] v).getIdx? [i]).map toList = some v.toList := by
  rw [toList_getIdx?, toList_setIdx _ _ _ hv]
  have hl : v.toList.length = 1 := by rw [length_toList v hv]; exact h1
  obtain ⟨r, hr⟩ := List.length_eq_one_iff.1 hl
  have hi' : i < b.toList.length := by rw [length_toList b hb]; exact hi
  simp [hr, bcast, gather?_cons, List.getElem?_set_self hi']

/-! #### `concatenate`, `reshape`, `invert_axes`, `@` -/

theorem toList_concat (a b : RotBatch K) (ha : a.WF) : (a.concat b).toList = a.toList ++ b.toList := by
  unfold WF at ha
  simp [concat, toList, List.zipWith_append ha]

theorem wf_concat (a b : RotBatch K) (ha : a.WF) (hb : b.WF) : (a.concat b).WF := by
  unfold WF at *; simp [concat, ha, hb]

theorem toList_concatAll (bs : List (RotBatch K)) (h : ∀ b ∈ bs, b.WF) :
    (concatAll bs).toList = bs.flatMap toList := by
  induction bs with
  | nil => rfl
  | cons b bs ih =>
    have hb : b.WF := h b (by simp)
    have := ih (fun x hx => h x (by simp [hx]))
    unfold WF at hb
    simp only [concatAll, toList, List.flatMap_cons] at this ⊢
    rw [List.zipWith_append hb, this]

theorem wf_concatAll (bs : List (RotBatch K)) (h : ∀ b ∈ bs, b.WF) : (concatAll bs).WF := by
  induction bs with
  | nil => rfl
  | cons b bs ih =>
    have hb : b.WF := h b (by simp)
    have := ih (fun x hx => h x (by simp [hx]))
    unfold WF at hb this ⊢
    simp only [concatAll, List.flatMap_cons, List.length_append] at this ⊢
    rw [hb, this]

theorem toList_reshape (b : RotBatch K) (shape : List Nat) : (b.reshape shape).toList = b.toList := rfl
theorem wf_reshape (b : RotBatch K) (shape : List Nat) (hb : b.WF) : (b.reshape shape).WF := hb

theorem toList_reshape? (b : RotBatch K) (shape : List Nat) (hb : b.WF) :
    (b.reshape? shape).map toList = tensorReshape? b.toList shape := by
  have hl := length_toList b hb
  unfold WF at hb
  unfold reshape? tensorReshape?
  rw [hl, ← hb]
  by_cases hc : shape.foldl (· * ·) 1 = b.qs.length
  · simp only [if_pos hc]; rfl
  · simp only [if_neg hc]; rfl

theorem wf_reshape? (b r : RotBatch K) (shape : List Nat) (hb : b.WF) (h : b.reshape? shape = some r) :
    r.WF := by
  unfold reshape? tensorReshape? at h
  split at h
  · rename_i q f hq hf
    simp only [Option.some.injEq] at h
    subst h
    split at hq <;> simp only [Option.some.injEq, reduceCtorEq] at hq
    split at hf <;> simp only [Option.some.injEq, reduceCtorEq] at hf
    subst hq hf
    exact hb
  · simp at h

theorem toList_invertAxes (b : RotBatch K) : b.invertAxes.toList = b.toList.map Rot.invertAxes := by
  obtain ⟨qs, fl⟩ := b
  simp only [invertAxes, toList]
  induction qs generalizing fl with
  | nil => simp
  | cons q qs ih => cases fl with
    | nil => simp
    | cons f fl => simp [ih, Rot.invertAxes]

theorem wf_invertAxes (b : RotBatch K) (hb : b.WF) : b.invertAxes.WF := by
  unfold WF at *; simp [invertAxes, hb]

section MulL
variable [Add K] [Sub K] [Mul K]

theorem toList_mapMul (p : Rot K) (b : RotBatch K) : (mapMul p b).toList = b.toList.map (Rot.mul p) := by
  obtain ⟨qs, fl⟩ := b
  simp only [mapMul, toList]
  induction qs generalizing fl with
  | nil => simp
  | cons q qs ih => cases fl with
    | nil => simp
    | cons f fl => simp [ih, Rot.mul]

theorem toList_mapMulRight (b : RotBatch K) (p : Rot K) :
    (b.mapMulRight p).toList = b.toList.map (fun r => Rot.mul r p) := by
  obtain ⟨qs, fl⟩ := b
  simp only [mapMulRight, toList]
  induction qs generalizing fl with
  | nil => simp
  | cons q qs ih => cases fl with
    | nil => simp
    | cons f fl => simp [ih, Rot.mul]

theorem toList_zipMul (a b : RotBatch K) (ha : a.WF) (hb : b.WF) :
    (zipMul a b).toList = List.zipWith Rot.mul a.toList b.toList := by
  obtain ⟨qa, fa⟩ := a
  obtain ⟨qb, fb⟩ := b
  unfold WF at ha hb
  simp only [zipMul, toList] at ha hb ⊢
  induction qa generalizing fa qb fb with
  | nil => simp
  | cons q qa ih =>
    cases fa with
    | nil => simp at ha
    | cons f fa =>
      cases qb with
      | nil => simp
      | cons q' qb =>
        cases fb with
        | nil => simp at hb
        | cons f' fb =>
          simp only [List.length_cons, Nat.add_right_cancel_iff] at ha hb
          simp [ih fa ha qb fb hb, Rot.mul]

theorem wf_mapMul (p : Rot K) (b : RotBatch K) (hb : b.WF) : (mapMul p b).WF := by
  unfold WF at *; simp [mapMul, hb]
theorem wf_mapMulRight (p : Rot K) (b : RotBatch K) (hb : b.WF) : (b.mapMulRight p).WF := by
  unfold WF at *; simp [mapMulRight, hb]
theorem wf_zipMul (a b : RotBatch K) (ha : a.WF) (hb : b.WF) : (zipMul a b).WF := by
  unfold WF at *; simp [zipMul, ha, hb]
end MulL

/-! #### the component setters -/

theorem flags_setComponentAt (b : RotBatch K) (c : Nat) (idx : List Nat) (xs : List K) :
    (b.setComponentAt c idx xs).flags = b.flags := rfl
theorem flags_setComponent (b : RotBatch K) (c : Nat) (xs : List K) :
    (b.setComponent c xs).flags = b.flags := rfl

theorem size_setComponentAt (b : RotBatch K) (c : Nat) (idx : List Nat) (xs : List K) :
    (b.setComponentAt c idx xs).size = b.size := by
  simp [setComponentAt, size, length_foldl_setCompAt]

theorem wf_setComponentAt (b : RotBatch K) (c : Nat) (idx : List Nat) (xs : List K) (hb : b.WF) :
    (b.setComponentAt c idx xs).WF := by
  unfold WF at *; simp [setComponentAt, length_foldl_setCompAt, hb]
theorem wf_setComponent (b : RotBatch K) (c : Nat) (xs : List K) (hb : b.WF) :
    (b.setComponent c xs).WF := wf_setComponentAt _ _ _ _ hb

/-- the setter is the element-wise `Rot.setComp` (which keeps the flag) -/
theorem toList_setComponentAt (b : RotBatch K) (c : Nat) (idx : List Nat) (xs : List K) :
    (b.setComponentAt c idx xs).toList
      = (idx.zip (bcast idx.length xs)).foldl (fun acc p => rotSetCompAt c acc p.1 p.2) b.toList := by
  simp only [setComponentAt, toList, zipWith_foldl_setCompAt]

/-- the other components of every quaternion are unchanged -/
theorem getComp_setComponentAt (b : RotBatch K) (c c' : Nat) (idx : List Nat) (xs : List K)
    (h : compIx c ≠ compIx c') :
    (b.setComponentAt c idx xs).qs.map (fun q => q.getComp c') = b.qs.map (fun q => q.getComp c') := by
  simp only [setComponentAt, map_getComp_foldl_setCompAt _ _ _ _ h]
theorem getComp_setComponent (b : RotBatch K) (c c' : Nat) (xs : List K) (h : compIx c ≠ compIx c') :
    (b.setComponent c xs).qs.map (fun q => q.getComp c') = b.qs.map (fun q => q.getComp c') :=
  getComp_setComponentAt _ _ _ _ _ h

theorem map_improper_zipWith (qs qs' : List (Q K)) (fl : List Bool) (h : qs.length = qs'.length) :
    (List.zipWith Rot.mk qs fl).map Rot.improper = (List.zipWith Rot.mk qs' fl).map Rot.improper := by
  induction qs generalizing qs' fl with
  | nil => cases qs' with
    | nil => rfl
    | cons _ _ => simp at h
  | cons q qs ih => cases qs' with
    | nil => simp at h
    | cons q' qs' => cases fl with
      | nil => simp
      | cons f fl => simp [ih qs' fl (by simpa using h)]

/-- the flag of every element — hence the sign `det` of its matrix — is kept -/
theorem improper_setComponentAt (b : RotBatch K) (c : Nat) (idx : List Nat) (xs : List K) :
    (b.setComponentAt c idx xs).toList.map Rot.improper = b.toList.map Rot.improper := by
  unfold toList
  exact map_improper_zipWith _ _ _ (by simp [setComponentAt, length_foldl_setCompAt])
theorem improper_setComponent (b : RotBatch K) (c : Nat) (xs : List K) :
    (b.setComponent c xs).toList.map Rot.improper = b.toList.map Rot.improper :=
  improper_setComponentAt _ _ _ _

theorem sgn_setComponentAt [Neg K] [OfNat K 1] (b : RotBatch K) (c : Nat) (idx : List Nat) (xs : List K) :
    (b.setComponentAt c idx xs).toList.map (fun r => (sgn r.improper : K))
      = b.toList.map (fun r => (sgn r.improper : K)) := by
  have h := congrArg (List.map (fun f => (sgn f : K))) (improper_setComponentAt b c idx xs)
  simpa [List.map_map, Function.comp_def] using h

end RotBatch

/-! ### matrices of the element-wise operations -/
section MatL
variable {K : Type} [CommRing K]

theorem RotBatch.toMat_invertAxes (b : RotBatch K) :
    b.invertAxes.toList.map Rot.toMat = b.toList.map (fun r => Mat3.smul (-1) r.toMat) := by
  rw [RotBatch.toList_invertAxes, List.map_map]
  exact List.map_congr_left (fun r _ => invertAxes_toMat r)

theorem RotBatch.toMat_mapMul (p : Rot K) (b : RotBatch K) :
    (RotBatch.mapMul p b).toList.map Rot.toMat = b.toList.map (fun r => Mat3.mul p.toMat r.toMat) := by
  rw [RotBatch.toList_mapMul, List.map_map]
  exact List.map_congr_left (fun r _ => rot_toMat_mul p r)

theorem RotBatch.toMat_mapMulRight (b : RotBatch K) (p : Rot K) :
    (b.mapMulRight p).toList.map Rot.toMat = b.toList.map (fun r => Mat3.mul r.toMat p.toMat) := by
  rw [RotBatch.toList_mapMulRight, List.map_map]
  exact List.map_congr_left (fun r _ => rot_toMat_mul r p)
end MatL

/-! ### edit histories -/
section EditL
variable {K : Type} [Add K] [Sub K] [Mul K]

theorem Edit.toList_apply (b : RotBatch K) (e : Edit K) (hb : b.WF) (he : e.WF) :
    (e.apply b).toList = e.applyList b.toList := by
  cases e with
  | setItem idx v => exact RotBatch.toList_setIdx b v idx he
  | setComponent c xs =>
    simp only [Edit.apply, Edit.applyList, RotBatch.setComponent, RotBatch.toList_setComponentAt,
      RotBatch.length_toList b hb, List.length_range]
  | setComponentAt c idx xs => exact RotBatch.toList_setComponentAt b c idx xs
  | invertAxes => exact RotBatch.toList_invertAxes b
  | reshape s => rfl
  | append o => exact RotBatch.toList_concat b o hb
  | mulLeft p => exact RotBatch.toList_mapMul p b
  | mulRight p => exact RotBatch.toList_mapMulRight b p

theorem Edit.wf_apply (b : RotBatch K) (e : Edit K) (hb : b.WF) (he : e.WF) : (e.apply b).WF := by
  cases e with
  | setItem idx v => exact RotBatch.wf_setIdx b v idx hb
  | setComponent c xs => exact RotBatch.wf_setComponent b c xs hb
  | setComponentAt c idx xs => exact RotBatch.wf_setComponentAt b c idx xs hb
  | invertAxes => exact RotBatch.wf_invertAxes b hb
  | reshape s => exact hb
  | append o => exact RotBatch.wf_concat b o hb he
  | mulLeft p => exact RotBatch.wf_mapMul p b hb
  | mulRight p => exact RotBatch.wf_mapMulRight p b hb

/-- an arbitrary history of edits of the two tensors = the same history of element-wise edits of the list
of rotations; the batch stays well-formed -/
theorem toList_foldl_edits (es : List (Edit K)) (b : RotBatch K) (hb : b.WF) (hes : ∀ e ∈ es, e.WF) :
    (es.foldl Edit.apply b).toList = es.foldl Edit.applyList b.toList ∧ (es.foldl Edit.apply b).WF := by
  induction es generalizing b with
  | nil => exact ⟨rfl, hb⟩
  | cons e es ih =>
    have he : e.WF := hes e (by simp)
    have := ih (e.apply b) (Edit.wf_apply b e hb he) (fun x hx => hes x (by simp [hx]))
    simp only [List.foldl_cons]
    rw [← Edit.toList_apply b e hb he]
    exact this
end EditL

section SetHistory
variable {K : Type}

/-- a history of item assignments -/
theorem toList_foldl_setIdx (es : List (List Nat × RotBatch K)) (b : RotBatch K)
    (hes : ∀ e ∈ es, e.2.WF) :
    (es.foldl (fun b e => b.setIdx e.1 e.2) b).toList
      = es.foldl (fun l e => writeList l e.1 (bcast e.1.length e.2.toList)) b.toList := by
  induction es generalizing b with
  | nil => rfl
  | cons e es ih =>
    simp only [List.foldl_cons]
    rw [ih _ (fun x hx => hes x (by simp [hx])), RotBatch.toList_setIdx _ _ _ (hes e (by simp))]

/-- … and on the matrices -/
theorem toMat_foldl_setIdx [Add K] [Sub K] [Mul K] [Neg K] [OfNat K 1]
    (es : List (List Nat × RotBatch K)) (b : RotBatch K) (hes : ∀ e ∈ es, e.2.WF) :
    (es.foldl (fun b e => b.setIdx e.1 e.2) b).toList.map Rot.toMat
      = es.foldl (fun l e => writeList l e.1 (bcast e.1.length (e.2.toList.map Rot.toMat)))
          (b.toList.map Rot.toMat) := by
  induction es generalizing b with
  | nil => rfl
  | cons e es ih =>
    simp only [List.foldl_cons]
    rw [ih _ (fun x hx => hes x (by simp [hx])), RotBatch.toMat_setIdx _ _ _ (hes e (by simp))]

/-- the same with torch's checks: the history of checked assignments on the two tensors fails exactly when
the element-wise one does and otherwise agrees with it -/
theorem toList_foldlM_setIdx? (es : List (List Nat × RotBatch K)) (b : RotBatch K) (hb : b.WF)
    (hes : ∀ e ∈ es, e.2.WF) :
    (es.foldlM (fun (b : RotBatch K) e => b.setIdx? e.1 e.2) b).map RotBatch.toList
      = es.foldlM (fun l e => tensorSet? l e.1 e.2.toList) b.toList := by
  induction es generalizing b with
  | nil => rfl
  | cons e es ih =>
    have he : e.2.WF := hes e (by simp)
    have h := RotBatch.toList_setIdx? b e.2 e.1 hb he
    simp only [List.foldlM_cons]
    rw [← h]
    cases hs : b.setIdx? e.1 e.2 with
    | none => rfl
    | some b' =>
      have hb' := RotBatch.wf_setIdx? b e.2 b' e.1 hb hs
      simpa using ih b' hb' (fun x hx => hes x (by simp [hx]))
end SetHistory

/-! ### concrete batches over `Int` -/
section Examples
open RotBatch

private def qI : Q Int := ⟨0, 0, 0, 1⟩
private def qX : Q Int := ⟨1, 0, 0, 0⟩
private def qY : Q Int := ⟨0, 1, 0, 0⟩
private def qZ : Q Int := ⟨0, 0, 1, 0⟩
/-- a batch of four rotations, slots 1 and 2 improper -/
private def b4 : RotBatch Int := ⟨[qI, qX, qY, qZ], [false, true, true, false]⟩

example : b4.WF := by decide
example : b4.toList = [⟨qI, false⟩, ⟨qX, true⟩, ⟨qY, true⟩, ⟨qZ, false⟩] := by decide
example : ofList b4.toList = b4 := by decide

-- assign an all-proper value over slots that hold improper rotations: the flags of those slots become false
example : (b4.setIdx [1, 2] ⟨[qZ, qI], [false, false]⟩).toList
    = [⟨qI, false⟩, ⟨qZ, false⟩, ⟨qI, false⟩, ⟨qZ, false⟩] := by decide
example : (b4.setIdx [1, 2] ⟨[qZ, qI], [false, false]⟩).flags = [false, false, false, false] := by decide
-- a single proper value is broadcast to all addressed slots, flag included
example : (b4.setIdx [1, 2] ⟨[qI], [false]⟩) = ⟨[qI, qI, qI, qZ], [false, false, false, false]⟩ := by decide
example : (b4.setIdx [1, 2] ⟨[qI], [false]⟩).toList.map Rot.toMat
    = [qI.toMat, qI.toMat, qI.toMat, qZ.toMat] := by decide
-- before the assignment slot 1 holds `-R(qX)`, afterwards `+R(qI)`
example : (b4.toList.map Rot.toMat)[1]? = some (Mat3.smul (-1) qX.toMat) := by decide
-- an improper value over proper slots sets the flags
example : (b4.setIdx [0, 3] ⟨[qX], [true]⟩).flags = [true, true, true, true] := by decide
-- a repeated index: the later write wins, for the quaternion and for the flag
example : (b4.setIdx [0, 0] ⟨[qX, qY], [true, false]⟩) = ⟨[qY, qX, qY, qZ], [false, true, true, false]⟩ := by
  decide
-- torch's checks: index out of range, value of the wrong length
example : b4.setIdx? [4] ⟨[qI], [false]⟩ = none := by decide
example : b4.setIdx? [0, 1, 2] ⟨[qI, qI], [false, false]⟩ = none := by decide
example : b4.setIdx? [1, 2] ⟨[qI], [false]⟩ = some ⟨[qI, qI, qI, qZ], [false, false, false, false]⟩ := by
  decide
-- `__getitem__`
example : b4.getIdx? [2, 0, 2] = some ⟨[qY, qI, qY], [true, false, true]⟩ := by decide
example : b4.getIdx? [1, 4] = none := by decide
-- `concatenate`, `reshape`, `invert_axes`
example : (b4.concat ⟨[qX], [true]⟩).toList = b4.toList ++ [⟨qX, true⟩] := by decide
example : (b4.reshape? [2, 2]).map toList = some b4.toList := by decide
example : b4.reshape? [3, 2] = none := by decide
example : b4.invertAxes.flags = [true, false, false, true] := by decide
example : b4.invertAxes.toList = b4.toList.map Rot.invertAxes := by decide
-- `p @ batch` with a single improper `p`
example : (mapMul ⟨qX, true⟩ b4) = ⟨[qX, ⟨0, 0, 0, -1⟩, qZ, ⟨0, -1, 0, 0⟩], [true, false, false, true]⟩ := by
  decide
example : (mapMul ⟨qX, true⟩ b4).toList = b4.toList.map (Rot.mul ⟨qX, true⟩) := by decide
-- the component setters: one component of all (or of the selected) quaternions, flags untouched
example : b4.setComponent 3 [7] = ⟨[⟨0, 0, 0, 7⟩, ⟨1, 0, 0, 7⟩, ⟨0, 1, 0, 7⟩, ⟨0, 0, 1, 7⟩], b4.flags⟩ := by
  decide
example : b4.setComponent 0 [5, 6, 7, 8]
    = ⟨[⟨5, 0, 0, 1⟩, ⟨6, 0, 0, 0⟩, ⟨7, 1, 0, 0⟩, ⟨8, 0, 1, 0⟩], b4.flags⟩ := by decide
example : b4.setComponentAt 1 [2] [9] = ⟨[qI, qX, ⟨0, 9, 0, 0⟩, qZ], b4.flags⟩ := by decide
-- a short history: assign, invert the axes, assign again
example : ([Edit.setItem [1] ⟨[qI], [false]⟩, Edit.invertAxes, Edit.setItem [0, 1] ⟨[qZ], [false]⟩].foldl
      Edit.apply b4).toList = [⟨qZ, false⟩, ⟨qZ, false⟩, ⟨qY, false⟩, ⟨qZ, true⟩] := by decide
end Examples

end M
