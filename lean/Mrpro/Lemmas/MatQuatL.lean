import Mrpro.Model.Rotation
import Mrpro.Lemmas.RotationL
import Mathlib.Tactic.Ring
import Mathlib.Tactic.Linarith
import Mathlib.Tactic.FieldSimp
import Mathlib.Tactic.LinearCombination
import Mathlib.Algebra.Order.Field.Basic
import Mathlib.Analysis.Real.Sqrt
/-! Round trip quaternion → matrix → quaternion (`_matrix_to_quaternion ∘ _quaternion_to_matrix`)
for unit quaternions over a linearly ordered field with a square root. -/
namespace M
section
variable {K : Type} [Field K] [LinearOrder K] [IsStrictOrderedRing K]

/-- the divisor `sqrt(best)·2` of the chosen branch is `±4t` when `best = (2t)²` -/
theorem sqrt_branch (sqrt : K → K) (hs : ∀ x, 0 ≤ x → 0 ≤ sqrt x ∧ sqrt x * sqrt x = x) (t : K) :
    (0 < t → sqrt (2 * t * (2 * t)) * (1 + 1) = 4 * t) ∧
    (t < 0 → sqrt (2 * t * (2 * t)) * (1 + 1) = -(4 * t)) := by
  obtain ⟨h0, h1⟩ := hs (2 * t * (2 * t)) (mul_self_nonneg _)
  rcases mul_self_eq_mul_self_iff.mp h1 with h | h
  · refine ⟨fun _ => by rw [h]; ring, fun ht => ?_⟩
    rw [h] at h0; linarith
  · refine ⟨fun ht => ?_, fun _ => by rw [h]; ring⟩
    rw [h] at h0; linarith

omit [IsStrictOrderedRing K] in
/-- unfolding of `matrixToQuatG` once the four Shepperd candidates are known and non-negative (relu is
the identity); the conditions are the `argmax` chain of the code -/
theorem matrixToQuatG_eq (sqrt : K → K) (m : Mat3 K) (A B C W : K)
    (hA : 1 + m.m00 - m.m11 - m.m22 = A) (hB : 1 - m.m00 + m.m11 - m.m22 = B)
    (hC : 1 - m.m00 - m.m11 + m.m22 = C) (hW : 1 + m.m00 + m.m11 + m.m22 = W)
    (nA : 0 ≤ A) (nB : 0 ≤ B) (nC : 0 ≤ C) (nW : 0 ≤ W) :
    matrixToQuatG sqrt m =
      if B ≤ A ∧ C ≤ A ∧ W ≤ A then
        ⟨A / (sqrt A * (1 + 1)), (m.m10 + m.m01) / (sqrt A * (1 + 1)), (m.m02 + m.m20) / (sqrt A * (1 + 1)), (m.m21 - m.m12) / (sqrt A * (1 + 1))⟩
      else if C ≤ B ∧ W ≤ B then
        ⟨(m.m10 + m.m01) / (sqrt B * (1 + 1)), B / (sqrt B * (1 + 1)), (m.m12 + m.m21) / (sqrt B * (1 + 1)), (m.m02 - m.m20) / (sqrt B * (1 + 1))⟩
      else if W ≤ C then
        ⟨(m.m20 + m.m02) / (sqrt C * (1 + 1)), (m.m21 + m.m12) / (sqrt C * (1 + 1)), C / (sqrt C * (1 + 1)), (m.m10 - m.m01) / (sqrt C * (1 + 1))⟩
      else
        ⟨(m.m21 - m.m12) / (sqrt W * (1 + 1)), (m.m02 - m.m20) / (sqrt W * (1 + 1)), (m.m10 - m.m01) / (sqrt W * (1 + 1)), W / (sqrt W * (1 + 1))⟩ := by
  simp only [matrixToQuatG, hA, hB, hC, hW, if_neg (not_lt.mpr nA), if_neg (not_lt.mpr nB),
    if_neg (not_lt.mpr nC), if_neg (not_lt.mpr nW), ge_iff_le, Bool.and_eq_true, decide_eq_true_eq,
    and_assoc]
  split_ifs <;> rfl

/-- `_matrix_to_quaternion (_quaternion_to_matrix q) = ±q` for a unit quaternion -/
theorem matrixToQuat_toMat (sqrt : K → K) (hs : ∀ x, 0 ≤ x → 0 ≤ sqrt x ∧ sqrt x * sqrt x = x)
    (q : Q K) (hq : q.normSq = 1) :
    matrixToQuatG sqrt q.toMat = q ∨ matrixToQuatG sqrt q.toMat = q.neg := by
  obtain ⟨a, b, c, w⟩ := q
  simp only [Q.normSq] at hq
  rw [matrixToQuatG_eq sqrt _ (2 * a * (2 * a)) (2 * b * (2 * b)) (2 * c * (2 * c)) (2 * w * (2 * w))
    (by simp only [Q.toMat]; linear_combination (-1 : K) * hq)
    (by simp only [Q.toMat]; linear_combination (-1 : K) * hq)
    (by simp only [Q.toMat]; linear_combination (-1 : K) * hq)
    (by simp only [Q.toMat]; linear_combination (-1 : K) * hq)
    (mul_self_nonneg _) (mul_self_nonneg _) (mul_self_nonneg _) (mul_self_nonneg _)]
  simp only [Q.toMat, two, Q.neg]
  split_ifs with h0 h1 h2
  · have ha : a ≠ 0 := by
      rintro rfl
      nlinarith [mul_self_nonneg b, mul_self_nonneg c, mul_self_nonneg w]
    rcases lt_or_gt_of_ne ha with hn | hp
    · right
      rw [(sqrt_branch sqrt hs a).2 hn]
      simp only [Q.mk.injEq]
      refine ⟨?_, ?_, ?_, ?_⟩ <;> field_simp <;> ring
    · left
      rw [(sqrt_branch sqrt hs a).1 hp]
      simp only [Q.mk.injEq]
      refine ⟨?_, ?_, ?_, ?_⟩ <;> field_simp <;> ring
  · have ha : b ≠ 0 := by
      rintro rfl
      have := mul_self_nonneg (2 * a)
      exact h0 ⟨by linarith, by linarith [h1.1], by linarith [h1.2]⟩
    rcases lt_or_gt_of_ne ha with hn | hp
    · right
      rw [(sqrt_branch sqrt hs b).2 hn]
      simp only [Q.mk.injEq]
      refine ⟨?_, ?_, ?_, ?_⟩ <;> field_simp <;> ring
    · left
      rw [(sqrt_branch sqrt hs b).1 hp]
      simp only [Q.mk.injEq]
      refine ⟨?_, ?_, ?_, ?_⟩ <;> field_simp <;> ring
  · have ha : c ≠ 0 := by
      rintro rfl
      have := mul_self_nonneg (2 * b)
      exact h1 ⟨by linarith, by linarith⟩
    rcases lt_or_gt_of_ne ha with hn | hp
    · right
      rw [(sqrt_branch sqrt hs c).2 hn]
      simp only [Q.mk.injEq]
      refine ⟨?_, ?_, ?_, ?_⟩ <;> field_simp <;> ring
    · left
      rw [(sqrt_branch sqrt hs c).1 hp]
      simp only [Q.mk.injEq]
      refine ⟨?_, ?_, ?_, ?_⟩ <;> field_simp <;> ring
  · have ha : w ≠ 0 := by
      rintro rfl
      have := mul_self_nonneg (2 * c)
      exact h2 (by linarith)
    rcases lt_or_gt_of_ne ha with hn | hp
    · right
      rw [(sqrt_branch sqrt hs w).2 hn]
      simp only [Q.mk.injEq]
      refine ⟨?_, ?_, ?_, ?_⟩ <;> field_simp <;> ring
    · left
      rw [(sqrt_branch sqrt hs w).1 hp]
      simp only [Q.mk.injEq]
      refine ⟨?_, ?_, ?_, ?_⟩ <;> field_simp <;> ring

/-- the matrix survives the round trip exactly -/
theorem toMat_matrixToQuat (sqrt : K → K) (hs : ∀ x, 0 ≤ x → 0 ≤ sqrt x ∧ sqrt x * sqrt x = x)
    (q : Q K) (hq : q.normSq = 1) :
    (matrixToQuatG sqrt q.toMat).toMat = q.toMat := by
  rcases matrixToQuat_toMat sqrt hs q hq with h | h
  · rw [h]
  · rw [h, toMat_neg]

end

/-- the executable `Float` function is the generic one at `Float.sqrt` -/
theorem F.matrixToQuat_eq_G : F.matrixToQuat = matrixToQuatG Float.sqrt := rfl

theorem real_sqrt_spec : ∀ x : ℝ, 0 ≤ x → 0 ≤ Real.sqrt x ∧ Real.sqrt x * Real.sqrt x = x :=
  fun x hx => ⟨Real.sqrt_nonneg x, Real.mul_self_sqrt hx⟩

/-- instance at the reals with `Real.sqrt` -/
theorem matrixToQuat_toMat_real (q : Q ℝ) (hq : q.normSq = 1) :
    matrixToQuatG Real.sqrt q.toMat = q ∨ matrixToQuatG Real.sqrt q.toMat = q.neg :=
  matrixToQuat_toMat Real.sqrt real_sqrt_spec q hq

theorem toMat_matrixToQuat_real (q : Q ℝ) (hq : q.normSq = 1) :
    (matrixToQuatG Real.sqrt q.toMat).toMat = q.toMat :=
  toMat_matrixToQuat Real.sqrt real_sqrt_spec q hq

/-- non-vacuity: the hypotheses are satisfiable, e.g. by the identity rotation `(0,0,0,1)` (last branch
of the argmax) and the half turn `(1,0,0,0)` (scalar part 0, first branch) -/
example : matrixToQuatG Real.sqrt (Q.toMat (⟨0, 0, 0, 1⟩ : Q ℝ)) = ⟨0, 0, 0, 1⟩ ∨
    matrixToQuatG Real.sqrt (Q.toMat (⟨0, 0, 0, 1⟩ : Q ℝ)) = Q.neg ⟨0, 0, 0, 1⟩ :=
  matrixToQuat_toMat_real ⟨0, 0, 0, 1⟩ (by norm_num [Q.normSq])

example : matrixToQuatG Real.sqrt (Q.toMat (⟨1, 0, 0, 0⟩ : Q ℝ)) = ⟨1, 0, 0, 0⟩ ∨
    matrixToQuatG Real.sqrt (Q.toMat (⟨1, 0, 0, 0⟩ : Q ℝ)) = Q.neg ⟨1, 0, 0, 0⟩ :=
  matrixToQuat_toMat_real ⟨1, 0, 0, 0⟩ (by norm_num [Q.normSq])

/-- concrete value: for the identity rotation the `+q` alternative holds -/
example : matrixToQuatG Real.sqrt (Q.toMat (⟨0, 0, 0, 1⟩ : Q ℝ)) = ⟨0, 0, 0, 1⟩ := by
  have h4 : Real.sqrt 4 = 2 := by
    rw [show (4 : ℝ) = 2 * 2 by norm_num]; exact Real.sqrt_mul_self (by norm_num)
  rw [matrixToQuatG_eq Real.sqrt _ 0 0 0 4 (by norm_num [Q.toMat]) (by norm_num [Q.toMat])
    (by norm_num [Q.toMat]) (by norm_num [Q.toMat]) le_rfl le_rfl le_rfl (by norm_num)]
  norm_num [Q.toMat, two, h4]
end M
