import Mrpro.Model.Resample
import Mathlib.Algebra.Order.Field.Basic
import Mathlib.Algebra.Order.Field.Rat
import Mathlib.Algebra.BigOperators.Group.List.Basic
import Mathlib.Algebra.BigOperators.Ring.List
import Mathlib.Tactic.Ring
import Mathlib.Tactic.FieldSimp
import Mathlib.Tactic.Linarith
import Mathlib.Tactic.Positivity
import Mathlib.Tactic.NormNum
/-! `SliceProjectionOp`: the fraction of a slice pixel's support inside the volume (`fractionInView`) and the
zero-padding reading of the normalised row. -/
namespace M

theorem fv_foldl_add_acc (l : List Rat) (a : Rat) : l.foldl (· + ·) a = a + l.sum := by
  induction l generalizing a with
  | nil => simp
  | cons x xs ih => simp [List.foldl_cons, ih, add_assoc]

theorem sumR_eq_sum (l : List Rat) : sumR l = l.sum := by
  unfold sumR
  rw [fv_foldl_add_acc]; simp

theorem sumR_append (a b : List Rat) : sumR (a ++ b) = sumR a + sumR b := by
  simp [sumR_eq_sum]

theorem inView_length (w : List Rat) (mask : List Bool) (h : w.length = mask.length) :
    (inView w mask).length = w.length := by
  simp [inView, List.length_zip, h]

theorem fv_inView_nil_left (mask : List Bool) : inView [] mask = [] := by simp [inView]
theorem fv_inView_nil_right (w : List Rat) : inView w [] = [] := by simp [inView]
theorem fv_inView_cons (x : Rat) (w : List Rat) (b : Bool) (mask : List Bool) :
    inView (x :: w) (b :: mask) = (if b then x else 0) :: inView w mask := by simp [inView]

theorem fv_inView_all_in (w : List Rat) (mask : List Bool) (hlen : w.length = mask.length)
    (hall : ∀ b ∈ mask, b = true) : inView w mask = w := by
  induction w generalizing mask with
  | nil => exact fv_inView_nil_left mask
  | cons x xs ih =>
    cases mask with
    | nil => simp at hlen
    | cons b bs =>
      have hb : b = true := hall b (by simp)
      have hbs : ∀ c ∈ bs, c = true := fun c hc => hall c (by simp [hc])
      have hl : xs.length = bs.length := by simpa using hlen
      rw [fv_inView_cons, ih bs hl hbs, hb]; simp

/-- all candidates inside the volume: the fraction is 1 -/
theorem fractionInView_all_in (w : List Rat) (mask : List Bool) (hlen : w.length = mask.length)
    (hall : ∀ b ∈ mask, b = true) (hs : sumR w ≠ 0) : fractionInView w mask = 1 := by
  unfold fractionInView
  rw [fv_inView_all_in w mask hlen hall]
  exact div_self hs

theorem fv_inView_sum_bounds (w : List Rat) (mask : List Bool) (hw : ∀ x ∈ w, 0 ≤ x) :
    0 ≤ (inView w mask).sum ∧ (inView w mask).sum ≤ w.sum := by
  induction w generalizing mask with
  | nil => rw [fv_inView_nil_left]; simp
  | cons x xs ih =>
    have hx : 0 ≤ x := hw x (by simp)
    have hxs : ∀ y ∈ xs, 0 ≤ y := fun y hy => hw y (by simp [hy])
    cases mask with
    | nil =>
      rw [fv_inView_nil_right]
      refine ⟨by simp, ?_⟩
      simp only [List.sum_nil, List.sum_cons]
      have := (ih [] hxs)
      rw [fv_inView_nil_right] at this
      simp only [List.sum_nil] at this
      linarith [this.2]
    | cons b bs =>
      obtain ⟨h0, h1⟩ := ih bs hxs
      rw [fv_inView_cons]
      simp only [List.sum_cons]
      cases b
      · simp only [Bool.false_eq_true, if_false]
        constructor <;> linarith
      · simp only [if_true]
        constructor <;> linarith

/-- for non-negative weights the fraction lies in [0, 1] -/
theorem fractionInView_range (w : List Rat) (mask : List Bool) (hw : ∀ x ∈ w, 0 ≤ x) (hs : 0 < sumR w) :
    0 ≤ fractionInView w mask ∧ fractionInView w mask ≤ 1 := by
  obtain ⟨h0, h1⟩ := fv_inView_sum_bounds w mask hw
  unfold fractionInView
  rw [sumR_eq_sum] at hs
  rw [sumR_eq_sum, sumR_eq_sum]
  exact ⟨div_nonneg h0 hs.le, (div_le_one hs).mpr h1⟩

theorem fv_inView_append (w : List Rat) (mask : List Bool) (hlen : w.length = mask.length)
    (w' : List Rat) (mask' : List Bool) : inView (w ++ w') (mask ++ mask') = inView w mask ++ inView w' mask' := by
  unfold inView
  rw [List.zip_append hlen, List.map_append]

/-- **a further candidate outside the volume with weight δ changes the fraction only through δ in the denominator**
(δ of rounding size does not matter) -/
theorem fractionInView_extra_outside (w : List Rat) (mask : List Bool) (hlen : w.length = mask.length) (δ : Rat) :
    fractionInView (w ++ [δ]) (mask ++ [false]) = sumR (inView w mask) / (sumR w + δ) := by
  unfold fractionInView
  rw [fv_inView_append w mask hlen, sumR_append, sumR_append]
  have h1 : sumR (inView [δ] [false]) = 0 := by simp [inView, sumR]
  have h2 : sumR [δ] = δ := by simp [sumR]
  rw [h1, h2, add_zero]

theorem fv_sumR_map_mul_left {α : Type} (l : List α) (c : Rat) (f : α → Rat) :
    sumR (l.map (fun p => c * f p)) = c * sumR (l.map f) := by
  rw [sumR_eq_sum, sumR_eq_sum, List.sum_map_mul_left]

/-- **zero padding**: with the fraction in view and ε = 0 the pixel value is the weighted sum over the voxels inside
the volume divided by the sum of ALL weights -/
theorem pixelValue_zero_padding (w : List Rat) (mask : List Bool) (v : List Rat)
    (hin : sumR (inView w mask) ≠ 0) (hall : sumR w ≠ 0) :
    pixelValue (fractionInView w mask) 0 w mask v
      = sumR (((inView w mask).zip v).map (fun p => p.1 * p.2)) / sumR w := by
  unfold pixelValue
  have hc : ∀ p : Rat × Rat,
      rowNorm (fractionInView w mask) (sumR (inView w mask)) 0 p.1 * p.2 = (1 / sumR w) * (p.1 * p.2) := by
    intro p
    unfold rowNorm fractionInView
    rw [add_zero]
    field_simp
  simp only [hc]
  rw [fv_sumR_map_mul_left]
  ring

/-- witness of the repaired defect: a candidate outside the volume with a rounding-size weight halved the row -/
theorem fractionInViewShipped_witness :
    fractionInViewShipped [1, 1 / 10000000] [true, false] = 1 / 2 ∧
      fractionInView [1, 1 / 10000000] [true, false] = 10000000 / 10000001 := by
  constructor
  · norm_num [fractionInViewShipped]
  · norm_num [fractionInView, inView, sumR]

end M

