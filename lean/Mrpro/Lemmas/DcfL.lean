import Mrpro.Model.Dcf
import Mathlib.Data.List.Sort
import Mathlib.Data.List.Perm.Basic
import Mathlib.Data.List.Dedup
import Mathlib.Algebra.Order.Field.Basic
import Mathlib.Algebra.Order.AbsoluteValue.Basic
import Mathlib.Tactic.Ring
import Mathlib.Tactic.FieldSimp
import Mathlib.Tactic.Linarith
import Mathlib.Tactic.Positivity
import Mathlib.Tactic.NormNum
/-! Proofs for `Mrpro/Props/C16.lean`. -/
namespace M


theorem pairwise_lt_eraseDups : ∀ (n : Nat) (l : List Rat), l.length ≤ n →
    l.Pairwise (· ≤ ·) → l.eraseDups.Pairwise (· < ·) := by
  intro n
  induction n with
  | zero =>
    intro l hl _
    have : l = [] := List.length_eq_zero_iff.mp (Nat.le_zero.mp hl)
    subst this; simp
  | succ n ih =>
    intro l hl hp
    cases l with
    | nil => simp
    | cons a as =>
      rw [List.eraseDups_cons, List.pairwise_cons]
      rw [List.pairwise_cons] at hp
      refine ⟨?_, ?_⟩
      · intro b hb
        rw [List.mem_eraseDups, List.mem_filter] at hb
        have hne : b ≠ a := by simpa using hb.2
        exact lt_of_le_of_ne (hp.1 b hb.1) (Ne.symm hne)
      · apply ih
        · have := List.length_filter_le (fun b => !b == a) as
          simp at hl; omega
        · exact hp.2.filter _

theorem pairwise_le_mergeSort (xs : List Rat) :
    (xs.mergeSort (fun a b => decide (a ≤ b))).Pairwise (· ≤ ·) := by
  have := List.pairwise_mergeSort (le := fun (a b : Rat) => decide (a ≤ b))
    (by intro a b c; simpa using le_trans) (by intro a b; simpa using le_total a b) xs
  simpa using this

theorem su_pairwise (xs : List Rat) : (sortedUnique xs).Pairwise (· < ·) :=
  pairwise_lt_eraseDups _ _ (le_refl _) (pairwise_le_mergeSort xs)

theorem mem_su {xs : List Rat} {x : Rat} : x ∈ sortedUnique xs ↔ x ∈ xs := by
  simp [sortedUnique, List.mem_eraseDups]

theorem su_unique {xs l : List Rat} (hl : l.Pairwise (· < ·)) (h : ∀ x, x ∈ l ↔ x ∈ xs) :
    sortedUnique xs = l :=
  (su_pairwise xs).eq_of_mem_iff hl (fun a => by rw [mem_su, h])

theorem su_nodup (xs : List Rat) : (sortedUnique xs).Nodup :=
  (su_pairwise xs).imp (fun h => ne_of_lt h)

theorem su_perm {xs ys : List Rat} (h : xs.Perm ys) : sortedUnique xs = sortedUnique ys :=
  su_unique (su_pairwise ys) (fun x => by rw [mem_su, h.mem_iff])

theorem dcf1d_perm_equivariant (xs ys : List Rat) (h : xs.Perm ys) :
    ∃ w : Rat → Rat, dcf1d xs = xs.map w ∧ dcf1d ys = ys.map w := by
  refine ⟨fun x => cellWidth (sortedUnique xs) ((sortedUnique xs).idxOf x) /
      ((xs.filter (· == x)).length : Rat), rfl, ?_⟩
  unfold dcf1d
  simp only [su_perm h, (h.filter _).length_eq]

theorem dcf1d_duplicates_share (xs : List Rat) (i : Nat) (hi : i < xs.length) :
    (dcf1d xs)[i]'(by simp [dcf1d]; exact hi) * ((xs.filter (· == xs[i])).length : Rat)
      = cellWidth (sortedUnique xs) ((sortedUnique xs).idxOf xs[i]) := by
  have hpos : 0 < (xs.filter (· == xs[i])).length := by
    apply List.length_pos_of_mem (a := xs[i])
    simp [List.mem_filter]
  have hne : ((xs.filter (· == xs[i])).length : Rat) ≠ 0 := by
    exact_mod_cast hpos.ne'
  simp only [dcf1d, List.getElem_map]
  exact div_mul_cancel₀ _ hne

/-! ### explicit forms of `cellWidth` -/

theorem getD_of_lt {u : List Rat} {i : Nat} (h : i < u.length) : u.getD i 0 = u[i] := by
  simp [List.getD_eq_getElem?_getD, h]

theorem cellWidth_lt2 {u : List Rat} (h : u.length < 2) (i : Nat) : cellWidth u i = 1 := by
  unfold cellWidth
  have h1 : ¬ u.length ≥ 3 := by omega
  have h2 : ¬ u.length = 2 := by omega
  simp only [h1, h2, if_false]

theorem cellWidth_first {u : List Rat} (h : 2 ≤ u.length) :
    cellWidth u 0 = u[1] - u[0] := by
  unfold cellWidth
  rw [getD_of_lt (show 1 < u.length by omega), getD_of_lt (show 0 < u.length by omega)]
  by_cases h3 : u.length ≥ 3
  · simp only [h3, if_true]
  · have h2 : u.length = 2 := by omega
    rw [if_neg h3, if_pos h2]

theorem cellWidth_last {u : List Rat} (h : 2 ≤ u.length) :
    cellWidth u (u.length - 1) = u[u.length - 1] - u[u.length - 2] := by
  unfold cellWidth
  by_cases h3 : u.length ≥ 3
  · have hne : ¬ u.length - 1 = 0 := by omega
    simp only [h3, hne, if_true, if_false]
    rw [getD_of_lt (show u.length - 1 < u.length by omega),
      getD_of_lt (show u.length - 2 < u.length by omega)]
  · have h2 : u.length = 2 := by omega
    rw [if_neg h3, if_pos h2]
    rw [getD_of_lt (show 1 < u.length by omega), getD_of_lt (show 0 < u.length by omega)]
    simp only [h2]

theorem cellWidth_mid {u : List Rat} {i : Nat} (h0 : 0 < i) (h1 : i + 1 < u.length) :
    cellWidth u i = (u[i + 1] - u[i - 1]) / 2 := by
  unfold cellWidth
  have h3 : u.length ≥ 3 := by omega
  have hne : ¬ i = 0 := by omega
  have hne' : ¬ i = u.length - 1 := by omega
  simp only [h3, hne, hne', if_true, if_false]
  rw [getD_of_lt h1, getD_of_lt (show i - 1 < u.length by omega)]

/-- case split used everywhere -/
theorem cellWidth_cases {u : List Rat} {i : Nat} (h : 2 ≤ u.length) (hi : i < u.length) :
    i = 0 ∨ i = u.length - 1 ∨ (0 < i ∧ i + 1 < u.length) := by omega

theorem cellWidth_pos {u : List Rat} (hu : u.Pairwise (· < ·)) (h : 2 ≤ u.length) {i : Nat}
    (hi : i < u.length) : 0 < cellWidth u i := by
  rw [List.pairwise_iff_getElem] at hu
  rcases cellWidth_cases h hi with rfl | rfl | ⟨h0, h1⟩
  · rw [cellWidth_first h]
    have := hu 0 1 (by omega) (by omega) (by omega)
    linarith
  · rw [cellWidth_last h]
    have := hu (u.length - 2) (u.length - 1) (by omega) (by omega) (by omega)
    linarith
  · rw [cellWidth_mid h0 h1]
    have := hu (i - 1) (i + 1) (by omega) (by omega) (by omega)
    linarith

theorem cellWidth_map_affine {u : List Rat} {f : Rat → Rat} {c : Rat}
    (hf : ∀ x y, f y - f x = c * (y - x)) (h : 2 ≤ u.length) {i : Nat} (hi : i < u.length) :
    cellWidth (u.map f) i = c * cellWidth u i := by
  have h' : 2 ≤ (u.map f).length := by simpa using h
  rcases cellWidth_cases h hi with rfl | rfl | ⟨h0, h1⟩
  · rw [cellWidth_first h, cellWidth_first h']
    simp only [List.getElem_map, hf]
  · have := cellWidth_last h'
    simp only [List.length_map] at this
    rw [this, cellWidth_last h]
    simp only [List.getElem_map, hf]
  · rw [cellWidth_mid h0 h1, cellWidth_mid h0 (by simpa using h1)]
    simp only [List.getElem_map, hf]
    ring

theorem cellWidth_reverse {u : List Rat} (h : 2 ≤ u.length) {i : Nat} (hi : i < u.length) :
    cellWidth u.reverse (u.length - 1 - i) = - cellWidth u i := by
  have h' : 2 ≤ u.reverse.length := by simpa using h
  rcases cellWidth_cases h hi with rfl | rfl | ⟨h0, h1⟩
  · have := cellWidth_last h'
    simp only [List.length_reverse] at this
    rw [Nat.sub_zero, this, cellWidth_first h]
    simp only [List.getElem_reverse]
    have e1 : u.length - 1 - (u.length - 1) = 0 := by omega
    have e2 : u.length - 1 - (u.length - 2) = 1 := by omega
    simp only [e1, e2]
    ring
  · have e : u.length - 1 - (u.length - 1) = 0 := by omega
    rw [e, cellWidth_first h', cellWidth_last h]
    simp only [List.getElem_reverse]
    have e1 : u.length - 1 - 1 = u.length - 2 := by omega
    simp only [e1, Nat.sub_zero]
    ring
  · rw [cellWidth_mid h0 h1, cellWidth_mid (by omega) (by simp; omega)]
    simp only [List.getElem_reverse]
    have e1 : u.length - 1 - (u.length - 1 - i + 1) = i - 1 := by omega
    have e2 : u.length - 1 - (u.length - 1 - i - 1) = i + 1 := by omega
    simp only [e1, e2]
    ring

/-! ### counts and indices -/

theorem count_pos' {xs : List Rat} {x : Rat} (hx : x ∈ xs) :
    (0 : Rat) < ((xs.filter (· == x)).length : Rat) := by
  have : 0 < (xs.filter (· == x)).length := by
    apply List.length_pos_of_mem (a := x)
    simp [List.mem_filter, hx]
  exact_mod_cast this

theorem idxOf_map_inj {f : Rat → Rat} (hf : Function.Injective f) (u : List Rat) (x : Rat) :
    (u.map f).idxOf (f x) = u.idxOf x := by
  induction u with
  | nil => simp
  | cons a as ih =>
    have e : (f a == f x) = (a == x) := by
      rw [Bool.eq_iff_iff]; simp [hf.eq_iff]
    simp only [List.map_cons, List.idxOf_cons, ih, e]

theorem count_map_inj {f : Rat → Rat} (hf : Function.Injective f) (xs : List Rat) (x : Rat) :
    ((xs.map f).filter (· == f x)).length = (xs.filter (· == x)).length := by
  rw [← List.count_eq_length_filter, ← List.count_eq_length_filter,
    List.count_map_of_injective _ _ hf]

theorem idxOf_reverse_of_mem {u : List Rat} (hu : u.Nodup) {x : Rat} (hx : x ∈ u) :
    u.reverse.idxOf x = u.length - 1 - u.idxOf x := by
  have hi : u.idxOf x < u.length := List.idxOf_lt_length_of_mem hx
  have hi' : u.length - 1 - u.idxOf x < u.reverse.length := by simp; omega
  have e : u.reverse[u.length - 1 - u.idxOf x] = x := by
    rw [List.getElem_reverse]
    have : u.length - 1 - (u.length - 1 - u.idxOf x) = u.idxOf x := by omega
    simp only [this]
    exact List.getElem_idxOf hi
  have := (List.nodup_reverse.mpr hu).idxOf_getElem _ hi'
  rwa [e] at this

theorem su_map_mono {f : Rat → Rat} (hf : StrictMono f) (xs : List Rat) :
    sortedUnique (xs.map f) = (sortedUnique xs).map f :=
  su_unique ((su_pairwise xs).map f (fun _ _ h => hf h)) (fun x => by simp [mem_su])

theorem su_map_anti {f : Rat → Rat} (hf : StrictAnti f) (xs : List Rat) :
    sortedUnique (xs.map f) = ((sortedUnique xs).map f).reverse :=
  su_unique (List.pairwise_reverse.mpr ((su_pairwise xs).map f (fun _ _ h => hf h)))
    (fun x => by simp [mem_su])

/-! ### strictly monotone / antitone affine maps -/

theorem dcf1d_map_small {f : Rat → Rat} (hf : StrictMono f) (xs : List Rat)
    (h2 : (sortedUnique xs).length < 2) : dcf1d (xs.map f) = dcf1d xs := by
  unfold dcf1d
  rw [su_map_mono hf, List.map_map]
  apply List.map_congr_left
  intro x _
  simp only [Function.comp]
  rw [count_map_inj hf.injective, cellWidth_lt2 (by simpa using h2), cellWidth_lt2 h2]

theorem dcf1d_map_mono {f : Rat → Rat} {c : Rat} (hf : StrictMono f)
    (hc : ∀ x y, f y - f x = c * (y - x)) (xs : List Rat)
    (h2 : 2 ≤ (sortedUnique xs).length) : dcf1d (xs.map f) = (dcf1d xs).map (c * ·) := by
  unfold dcf1d
  rw [su_map_mono hf, List.map_map, List.map_map]
  apply List.map_congr_left
  intro x hx
  simp only [Function.comp]
  rw [count_map_inj hf.injective, idxOf_map_inj hf.injective,
    cellWidth_map_affine hc h2 (List.idxOf_lt_length_of_mem (mem_su.mpr hx)), mul_div_assoc]

theorem dcf1d_map_anti {f : Rat → Rat} {c : Rat} (hf : StrictAnti f)
    (hc : ∀ x y, f y - f x = c * (y - x)) (xs : List Rat)
    (h2 : 2 ≤ (sortedUnique xs).length) : dcf1d (xs.map f) = (dcf1d xs).map (-c * ·) := by
  unfold dcf1d
  rw [su_map_anti hf, List.map_map, List.map_map]
  apply List.map_congr_left
  intro x hx
  simp only [Function.comp]
  have hmem : x ∈ sortedUnique xs := mem_su.mpr hx
  have hi : (sortedUnique xs).idxOf x < (sortedUnique xs).length :=
    List.idxOf_lt_length_of_mem hmem
  have hnd : ((sortedUnique xs).map f).Nodup := (su_nodup xs).map hf.injective
  have h2' : 2 ≤ ((sortedUnique xs).map f).length := by simpa using h2
  rw [count_map_inj hf.injective, idxOf_reverse_of_mem hnd (List.mem_map_of_mem hmem),
    idxOf_map_inj hf.injective, cellWidth_reverse h2' (by simpa using hi),
    cellWidth_map_affine hc h2 hi]
  ring

theorem dcf1d_translate (xs : List Rat) (t : Rat) : dcf1d (xs.map (· + t)) = dcf1d xs := by
  have hf : StrictMono (fun x : Rat => x + t) := fun a b h => by simpa using h
  by_cases h2 : 2 ≤ (sortedUnique xs).length
  · rw [dcf1d_map_mono (c := 1) hf (fun x y => by ring) xs h2]
    simp
  · exact dcf1d_map_small hf xs (by omega)

/-- `dcf1d_scale` with the missing hypothesis: at least two distinct positions. -/
theorem dcf1d_scale_of_two_le (xs : List Rat) (a : Rat) (ha : a ≠ 0)
    (h2 : 2 ≤ (sortedUnique xs).length) :
    dcf1d (xs.map (a * ·)) = (dcf1d xs).map (|a| * ·) := by
  rcases lt_or_gt_of_ne ha with hneg | hpos
  · have hf : StrictAnti (fun x : Rat => a * x) := fun x y h => mul_lt_mul_of_neg_left h hneg
    rw [dcf1d_map_anti (c := a) hf (fun x y => by ring) xs h2, abs_of_neg hneg]
  · have hf : StrictMono (fun x : Rat => a * x) := fun x y h => mul_lt_mul_of_pos_left h hpos
    rw [dcf1d_map_mono (c := a) hf (fun x y => by ring) xs h2, abs_of_pos hpos]

theorem dcf1d_positive (xs : List Rat) (h2 : 2 ≤ (sortedUnique xs).length) : ∀ w ∈ dcf1d xs, 0 < w := by
  intro w hw
  simp only [dcf1d, List.mem_map] at hw
  obtain ⟨x, hx, rfl⟩ := hw
  exact div_pos (cellWidth_pos (su_pairwise xs) h2 (List.idxOf_lt_length_of_mem (mem_su.mpr hx)))
    (count_pos' hx)

/-- `dcf1d_scale` is false without the hypothesis `2 ≤ (sortedUnique xs).length`:
a single position has weight `1` whatever the scale. -/
theorem dcf1d_scale_counterexample :
    dcf1d (([0] : List Rat).map ((2 : Rat) * ·)) ≠ (dcf1d [0]).map (|(2 : Rat)| * ·) := by
  have hsu : sortedUnique [0] = [0] := su_unique (by simp) (fun _ => Iff.rfl)
  have h0 : dcf1d [0] = [1] := by
    simp [dcf1d, hsu, cellWidth_lt2]
  have e : ([0] : List Rat).map ((2 : Rat) * ·) = [0] := by simp
  rw [e, h0]
  simp

theorem dcf1d_uniform (n : Nat) (x0 h : Rat) (hh : 0 < h) (hn : 2 ≤ n) :
    dcf1d ((List.range n).map (fun i => x0 + h * i)) = List.replicate n h := by
  have hcoe : (List.range n).map (fun i => x0 + h * i)
      = (List.range n).map (fun i : Nat => x0 + h * (i : Rat)) := by
    simp only [List.bind_eq_flatMap, List.pure_def, ← List.map_eq_flatMap, List.map_map]
    rfl
  rw [hcoe]
  set xs : List Rat := (List.range n).map (fun i : Nat => x0 + h * (i : Rat)) with hxs
  have hlen : xs.length = n := by simp [hxs]
  have hget : ∀ (i : Nat) (hi : i < xs.length), xs[i] = x0 + h * i := by
    intro i hi; simp [hxs]
  have hpw : xs.Pairwise (· < ·) := by
    rw [hxs]
    refine List.pairwise_lt_range.map _ (fun a b hab => ?_)
    have : (a : Rat) < b := by exact_mod_cast hab
    nlinarith
  have hnd : xs.Nodup := hpw.imp (fun h => ne_of_lt h)
  have hsu : sortedUnique xs = xs := su_unique hpw (fun _ => Iff.rfl)
  rw [List.eq_replicate_iff]
  refine ⟨by simp [dcf1d, hlen], ?_⟩
  intro w hw
  simp only [dcf1d, List.mem_map, hsu] at hw
  obtain ⟨x, hx, rfl⟩ := hw
  obtain ⟨i, hi, rfl⟩ := List.getElem_of_mem hx
  have h2 : 2 ≤ xs.length := by omega
  have hc : ((xs.filter (· == xs[i])).length : Rat) = 1 := by
    rw [← List.count_eq_length_filter, List.count_eq_one_of_mem hnd hx]; simp
  rw [hnd.idxOf_getElem i hi, hc, div_one]
  rcases cellWidth_cases h2 hi with rfl | rfl | ⟨h0, h1⟩
  · rw [cellWidth_first h2, hget, hget]; push_cast; ring
  · rw [cellWidth_last h2, hget, hget]
    have : ((xs.length - 1 : Nat) : Rat) = ((xs.length - 2 : Nat) : Rat) + 1 := by
      have : xs.length - 1 = (xs.length - 2) + 1 := by omega
      rw [this]; push_cast; ring
    rw [this]; ring
  · rw [cellWidth_mid h0 h1, hget, hget]
    have : ((i + 1 : Nat) : Rat) = ((i - 1 : Nat) : Rat) + 2 := by
      have : i + 1 = (i - 1) + 2 := by omega
      rw [this]; push_cast; ring
    rw [this]; ring
end M
