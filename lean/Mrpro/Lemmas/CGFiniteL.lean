import Mrpro.Lemmas.CGKrylovL
import Mathlib.LinearAlgebra.SesquilinearForm.Basic
import Mathlib.LinearAlgebra.Dimension.Finite
import Mathlib.LinearAlgebra.Dimension.Constructions
import Mathlib.LinearAlgebra.FiniteDimensional.Defs
/-! Finite termination of the conjugate-gradient model `cgRun` (`Mrpro/Model/CG.lean`): in a space of
finite dimension `n`, with tolerance 0 and a budget of at least `n` iterations, the returned vector
solves `H x = b` exactly, and at most `n` iterations are executed.

Route: the residuals seen while the loop keeps running (`r₀, tr[0].r, tr[1].r, …`) are non-zero and
mutually `B`-orthogonal (`cgRun_krylov`), hence linearly independent, hence at most `finrank` many.

Main results: `orth_seq_card` (counting), `cgLoop_running` / `cgRun_running` (why the loop ended and
which residuals are non-zero), `cg_finite_termination`. -/
namespace M
variable {K V : Type} [Field K] [LinearOrder K] [IsStrictOrderedRing K] [AddCommGroup V] [Module K V]

section counting
variable (B : V →ₗ[K] V →ₗ[K] K)

omit [LinearOrder K] [IsStrictOrderedRing K] in
/-- `m` vectors that are pairwise `B`-orthogonal and not self-orthogonal are linearly independent,
so `m ≤ finrank` -/
theorem orth_card_le [Module.Finite K V] (m : ℕ) (v : Fin m → V)
    (horth : ∀ i j, i ≠ j → B (v i) (v j) = 0) (hne : ∀ i, B (v i) (v i) ≠ 0) :
    m ≤ Module.finrank K V := by
  have hli : LinearIndependent K v :=
    LinearMap.linearIndependent_of_isOrthoᵢ (LinearMap.isOrthoᵢ_def.2 horth) hne
  simpa using hli.fintype_card_le_finrank

omit [LinearOrder K] [IsStrictOrderedRing K] in
/-- a sequence `u 0, …, u (m-1)` of non-self-orthogonal vectors adapted to an increasing chain of
subspaces (`u i ∈ S (i+1)`, `u i ⟂ S i`) has at most `finrank` members -/
theorem orth_seq_card [Module.Finite K V] (symm : ∀ u v, B u v = B v u)
    (S : ℕ → Submodule K V) (hmono : ∀ i j, i ≤ j → S i ≤ S j) (u : ℕ → V) (m : ℕ)
    (hmem : ∀ i, i < m → u i ∈ S (i + 1))
    (horth : ∀ i, i < m → ∀ w ∈ S i, B (u i) w = 0)
    (hne : ∀ i, i < m → B (u i) (u i) ≠ 0) : m ≤ Module.finrank K V := by
  refine orth_card_le B m (fun i => u i) ?_ (fun i => hne i i.2)
  have key : ∀ i j : ℕ, i < j → j < m → B (u j) (u i) = 0 := fun i j hij hj =>
    horth j hj (u i) (hmono (i + 1) j hij (hmem i (lt_trans hij hj)))
  intro i j hij
  rcases lt_or_gt_of_ne (fun h => hij (Fin.ext h) : (i : ℕ) ≠ j) with h | h
  · rw [symm]; exact key i j h j.2
  · exact key j i h i.2

end counting

section loop
variable (B : V →ₗ[K] V →ₗ[K] K) (H : V →ₗ[K] V)
  (symm : ∀ u v, B u v = B v u) (posB : ∀ v, v ≠ 0 → 0 < B v v)
  (selfadj : ∀ u v, B (H u) v = B u (H v)) (posH : ∀ v, v ≠ 0 → 0 < B v (H v))
include symm posB selfadj posH

/-- why the loop (tolerance 0) ended: either the returned vector is an exact solution or the whole
fuel was used; and every residual the loop continued past is non-zero: the residual of the state it
was started in (if at least one iterate was reported) and all reported residuals but the last -/
theorem cgLoop_running (b : V) :
    ∀ (fuel k : Nat) (st : CGState K V) (tr : List (CGTrace V)) (x : V) (reason : String)
      (out : List (CGTrace V)), Inv B H b st →
      cgLoop (modOps' B) (fun v => H v) none fuel k st tr = .ok x reason out →
      ∃ new, out = tr.reverse ++ new ∧
        (0 < new.length → B st.r st.r ≠ 0) ∧
        (∀ (i : ℕ) (hi : i < new.length), i + 1 < new.length → B new[i].r new[i].r ≠ 0) ∧
        (H x = b ∨ new.length = fuel) := by
  intro fuel
  induction fuel with
  | zero =>
    intro k st tr x reason out _ h
    rw [cgLoop_zero] at h
    cases h
    exact ⟨[], by simp, fun h => absurd h (by simp), fun i hi => absurd hi (by simp), Or.inr rfl⟩
  | succ fuel ih =>
    intro k st tr x reason out hinv h
    rw [cgLoop_succ_none] at h
    by_cases hrr : B st.r st.r = 0
    · rw [if_pos hrr] at h
      cases h
      refine ⟨[], by simp, fun h => absurd h (by simp), fun i hi => absurd hi (by simp),
        Or.inl ?_⟩
      have hr0 : st.r = 0 := by
        by_contra hne
        exact (ne_of_gt (posB _ hne)) hrr
      have := hinv.1
      rw [hr0] at this
      exact (sub_eq_zero.mp this.symm).symm
    · rw [if_neg hrr] at h
      obtain ⟨p, hp, hphp, hinv', _, _⟩ := inv_step B H symm selfadj posH b st hinv hrr
      rw [hp] at h
      simp only at h
      rw [if_neg (ne_of_gt hphp)] at h
      obtain ⟨new, hout, hfirst, hmid, hend⟩ := ih (k + 1) _ _ x reason out hinv' h
      refine ⟨stepTr B H st p k :: new, by rw [hout]; simp, fun _ => hrr, ?_, ?_⟩
      · intro i hi hi'
        cases i with
        | zero =>
          have hpos : 0 < new.length := by simpa using hi'
          exact hfirst hpos
        | succ i =>
          have h1 : i < new.length := by simpa using hi
          have h2 : i + 1 < new.length := by simpa using hi'
          simpa using hmid i h1 h2
      · rcases hend with h | h
        · exact Or.inl h
        · exact Or.inr (by simp [h])

/-- run-level version of `cgLoop_running` (tolerance 0) -/
theorem cgRun_running (b : V) (x0 : Option V) (maxIter : Nat)
    (x : V) (reason : String) (tr : List (CGTrace V))
    (hrun : cgRun (modOps' B) (fun v => H v) b x0 maxIter none = .ok x reason tr) :
    (H x = b ∧ tr = []) ∨
      (B (b - H (start' b x0)) (b - H (start' b x0)) ≠ 0 ∧
        (∀ (i : ℕ) (hi : i < tr.length), i + 1 < tr.length → B tr[i].r tr[i].r ≠ 0) ∧
        (H x = b ∨ tr.length = maxIter)) := by
  have hx := cg_exact_stop B H symm posB selfadj posH b x0 maxIter none x reason tr hrun
  unfold cgRun at hrun
  simp only at hrun
  rw [cgInit_eq] at hrun
  rw [show (modOps' B).dot = fun u v => B u v from rfl] at hrun
  simp only at hrun
  by_cases hrr : B (b - H (start' b x0)) (b - H (start' b x0)) = 0
  · rw [if_pos hrr] at hrun
    cases hrun
    exact Or.inl ⟨hx (Or.inr rfl), rfl⟩
  · rw [if_neg hrr] at hrun
    obtain ⟨new, hout, _, hmid, hend⟩ := cgLoop_running B H symm posB selfadj posH b maxIter 0 _ []
      x reason tr ⟨rfl, rfl⟩ hrun
    simp only [List.reverse_nil, List.nil_append] at hout
    subst hout
    exact Or.inr ⟨hrr, hmid, hend⟩

/-- **at most `finrank` iterations.**  Any run with tolerance 0 reports at most `dim V` iterates,
whatever the budget. -/
theorem cg_iterations_le_finrank [Module.Finite K V] (b : V) (x0 : Option V) (maxIter : Nat)
    (x : V) (reason : String) (tr : List (CGTrace V))
    (hrun : cgRun (modOps' B) (fun v => H v) b x0 maxIter none = .ok x reason tr) :
    tr.length ≤ Module.finrank K V := by
  rcases cgRun_running B H symm posB selfadj posH b x0 maxIter x reason tr hrun with
    ⟨_, rfl⟩ | ⟨hr0, hmid, _⟩
  · exact Nat.zero_le _
  · have hg := cgRun_krylov B H selfadj posH b x0 maxIter none x reason tr hrun
    refine orth_seq_card B symm (fun i => Kry H (b - H (start' b x0)) i)
      (fun i j hij => Kry_mono H _ hij)
      (fun i => match i with
        | 0 => b - H (start' b x0)
        | i + 1 => if h : i < tr.length then tr[i].r else 0) tr.length ?_ ?_ ?_
    · intro i hi
      cases i with
      | zero => exact mem_Kry_one H _
      | succ i =>
        have h : i < tr.length := by omega
        simp only [dif_pos h]
        exact (hg i h).rmem
    · intro i hi w hw
      cases i with
      | zero =>
        rw [Kry_zero, Submodule.mem_bot] at hw
        rw [hw, map_zero]
      | succ i =>
        have h : i < tr.length := by omega
        simp only [dif_pos h]
        exact (hg i h).orth w hw
    · intro i hi
      cases i with
      | zero => exact hr0
      | succ i =>
        have h : i < tr.length := by omega
        simp only [dif_pos h]
        exact hmid i h hi

/-- **finite termination of CG.**  In a space of finite dimension `n = finrank K V`, a run with
tolerance 0 and a budget `maxIter ≥ n` returns the exact solution of `H x = b`, after at most `n`
iterations. -/
theorem cg_finite_termination [Module.Finite K V] (b : V) (x0 : Option V) (maxIter : Nat)
    (hn : Module.finrank K V ≤ maxIter)
    (x : V) (reason : String) (tr : List (CGTrace V))
    (hrun : cgRun (modOps' B) (fun v => H v) b x0 maxIter none = .ok x reason tr) :
    H x = b ∧ tr.length ≤ Module.finrank K V := by
  have hlen := cg_iterations_le_finrank B H symm posB selfadj posH b x0 maxIter x reason tr hrun
  refine ⟨?_, hlen⟩
  rcases cgRun_running B H symm posB selfadj posH b x0 maxIter x reason tr hrun with
    ⟨h, _⟩ | ⟨hr0, hmid, h | hfull⟩
  · exact h
  · exact h
  · -- the whole budget was used: were the last residual non-zero, there would be
    -- `maxIter + 1 > finrank` non-zero mutually orthogonal residuals
    by_contra hne
    have hg := cgRun_krylov B H selfadj posH b x0 maxIter none x reason tr hrun
    have hlast := cg_returns_last B H symm posB selfadj posH b x0 maxIter none x reason tr hrun
    have hnz : ∀ (i : ℕ) (hi : i < tr.length), B tr[i].r tr[i].r ≠ 0 := by
      intro i hi
      by_cases hi' : i + 1 < tr.length
      · exact hmid i hi hi'
      · have hil : i = tr.length - 1 := by omega
        have htr : tr ≠ [] := by
          intro h
          rw [h] at hi
          exact absurd hi (by simp)
        have hxl : x = tr[i].x := by
          rw [hlast, List.getLast?_map, List.getLast?_eq_some_getLast htr]
          simp only [Option.map_some, Option.getD_some]
          rw [List.getLast_eq_getElem]
          simp only [hil]
        have hres := (hg i hi).res
        have hr : tr[i].r ≠ 0 := by
          rw [hres, ← hxl]
          intro h0
          exact hne (sub_eq_zero.mp h0).symm
        exact ne_of_gt (posB _ hr)
    have hcount : tr.length + 1 ≤ Module.finrank K V := by
      refine orth_seq_card B symm (fun i => Kry H (b - H (start' b x0)) i)
        (fun i j hij => Kry_mono H _ hij)
        (fun i => match i with
          | 0 => b - H (start' b x0)
          | i + 1 => if h : i < tr.length then tr[i].r else 0) (tr.length + 1) ?_ ?_ ?_
      · intro i hi
        cases i with
        | zero => exact mem_Kry_one H _
        | succ i =>
          have h : i < tr.length := by omega
          simp only [dif_pos h]
          exact (hg i h).rmem
      · intro i hi w hw
        cases i with
        | zero =>
          rw [Kry_zero, Submodule.mem_bot] at hw
          rw [hw, map_zero]
        | succ i =>
          have h : i < tr.length := by omega
          simp only [dif_pos h]
          exact (hg i h).orth w hw
      · intro i hi
        cases i with
        | zero => exact hr0
        | succ i =>
          have h : i < tr.length := by omega
          simp only [dif_pos h]
          exact hnz i h
    omega

end loop

end M

/-! ### non-vacuity: the 2×2 system of `M.KrylovExample`, `finrank = 2`, budget 2 -/
namespace M.KrylovExample

/-- all hypotheses of `cg_finite_termination` are satisfiable together (a run exists, the dimension
is `2 ≤ maxIter = 2`), and the theorem then yields the exact solution after at most two iterations,
at least one of which is executed -/
example : ∃ (x : ℚ × ℚ) (reason : String) (tr : List (CGTrace (ℚ × ℚ))),
    cgRun (modOps' exB) (fun v => exH v) (1, 0) none 2 none = .ok x reason tr ∧
    Module.finrank ℚ (ℚ × ℚ) = 2 ∧ exH x = (1, 0) ∧ x = (2 / 3, -1 / 3) ∧
    0 < tr.length ∧ tr.length ≤ 2 := by
  have hr0 : ((1, 0) : ℚ × ℚ) - exH (start' (1, 0) none) ≠ 0 := by
    intro h
    have h1 := congrArg Prod.snd h
    simp [start', exH_apply] at h1
  have hfr : Module.finrank ℚ (ℚ × ℚ) = 2 := by
    rw [Module.finrank_prod, Module.finrank_self]
  obtain ⟨x, reason, tr, hrun, hpos⟩ :=
    cg_trace_pos exB exH ex_symm ex_posB ex_selfadj ex_posH (1, 0) none 2 (by decide) hr0
  obtain ⟨h1, h2⟩ := cg_finite_termination exB exH ex_symm ex_posB ex_selfadj ex_posH (1, 0) none 2
    (by rw [hfr]) x reason tr hrun
  refine ⟨x, reason, tr, hrun, hfr, h1, ?_, hpos, by rwa [hfr] at h2⟩
  rw [exH_apply] at h1
  have e1 := congrArg Prod.fst h1
  have e2 := congrArg Prod.snd h1
  simp only at e1 e2
  ext
  · show x.1 = 2 / 3
    linarith
  · show x.2 = -1 / 3
    linarith

end M.KrylovExample
