import Mrpro.Model.MoveData
import Mathlib.Data.List.Basic
import Mathlib.Logic.Function.Basic
/-! Proofs for `Mrpro/Props/C18.lean`. -/
namespace M

theorem kind_preserved (t d : DType) (ht : t.kind = .float ∨ t.kind = .complex) :
    (convertDType (some t) d).kind = d.kind := by
  cases d with | mk k b =>
  cases t with | mk tk tb =>
  cases k <;> rcases ht with h | h <;> simp_all [convertDType, DType.toReal, DType.toComplex]
theorem int_bool_unchanged (t d : DType) (hd : d.kind = .int ∨ d.kind = .bool) : convertDType (some t) d = d := by
  cases d with | mk k b =>
  cases k <;> simp_all [convertDType]
theorem precision_rule (t d : DType) (ht : t.kind = .float) :
    (d.kind = .float → convertDType (some t) d = t) ∧ (d.kind = .complex → convertDType (some t) d = ⟨.complex, t.bits * 2⟩) := by
  cases d with | mk k b =>
  cases t with | mk tk tb =>
  cases k <;> simp_all [convertDType, DType.toReal, DType.toComplex]

/-- the leaf map of a conversion -/
def leafMap (fresh : Nat → Nat) (copy : Bool) (target : Option DType) (p : Nat × DType) : Nat × DType :=
  (resultId fresh copy target p.1 p.2, convertDType target p.2)

mutual
theorem leaves_eq_map (fresh : Nat → Nat) (copy : Bool) (target : Option DType) :
    ∀ o : OTree, (o.to fresh copy target).leaves = o.leaves.map (leafMap fresh copy target)
  | .leaf id dt => by simp [OTree.to, OTree.leaves, leafMap]
  | .node cs => by
      simp only [OTree.to, OTree.leaves]
      exact leavesList_eq_map fresh copy target cs
theorem leavesList_eq_map (fresh : Nat → Nat) (copy : Bool) (target : Option DType) :
    ∀ cs : List OTree, OTree.leavesList (OTree.toList fresh copy target cs) =
      (OTree.leavesList cs).map (leafMap fresh copy target)
  | [] => by simp [OTree.toList, OTree.leavesList]
  | c :: cs => by
      simp only [OTree.toList, OTree.leavesList, List.map_append]
      rw [leaves_eq_map fresh copy target c, leavesList_eq_map fresh copy target cs]
end

theorem leaves_length (fresh : Nat → Nat) (copy : Bool) (target : Option DType) (o : OTree) :
    (o.to fresh copy target).leaves.length = o.leaves.length := by
  rw [leaves_eq_map, List.length_map]

theorem getElem_leaves_to (fresh : Nat → Nat) (copy : Bool) (target : Option DType) (o : OTree) (i : Nat)
    (hi : i < o.leaves.length) (hi' : i < (o.to fresh copy target).leaves.length) :
    (o.to fresh copy target).leaves[i]'hi' = leafMap fresh copy target (o.leaves[i]) := by
  simp only [leaves_eq_map, List.getElem_map]

theorem alias_preserved (fresh : Nat → Nat) (copy : Bool) (target : Option DType) (o : OTree) (i j : Nat)
    (hi : i < o.leaves.length) (hj : j < o.leaves.length)
    (hsame : o.leaves[i] = o.leaves[j]) :
    ((o.to fresh copy target).leaves[i]'(by rw [leaves_length]; exact hi)) =
      ((o.to fresh copy target).leaves[j]'(by rw [leaves_length]; exact hj)) := by
  rw [getElem_leaves_to fresh copy target o i hi, getElem_leaves_to fresh copy target o j hj, hsame]
theorem distinct_preserved (fresh : Nat → Nat) (copy : Bool) (target : Option DType) (o : OTree) (i j : Nat)
    (hinj : Function.Injective fresh) (hdisj : ∀ a b, fresh a ≠ b ∨ ∀ p ∈ o.leaves, p.1 ≠ b)
    (hi : i < o.leaves.length) (hj : j < o.leaves.length)
    (hdiff : (o.leaves[i]).1 ≠ (o.leaves[j]).1) :
    ((o.to fresh copy target).leaves[i]'(by rw [leaves_length]; exact hi)).1 ≠
      ((o.to fresh copy target).leaves[j]'(by rw [leaves_length]; exact hj)).1 := by
  rw [getElem_leaves_to fresh copy target o i hi, getElem_leaves_to fresh copy target o j hj]
  have hmi : o.leaves[i] ∈ o.leaves := List.getElem_mem hi
  have hmj : o.leaves[j] ∈ o.leaves := List.getElem_mem hj
  simp only [leafMap, resultId]
  split <;> split
  · exact fun h => hdiff (hinj h)
  · intro h
    rcases hdisj (o.leaves[i]).1 (o.leaves[j]).1 with h' | h'
    · exact h' h
    · exact h' _ hmj rfl
  · intro h
    rcases hdisj (o.leaves[j]).1 (o.leaves[i]).1 with h' | h'
    · exact h' h.symm
    · exact h' _ hmi rfl
  · exact hdiff
theorem copy_fresh (fresh : Nat → Nat) (target : Option DType) (o : OTree)
    (hdisj : ∀ a, ∀ p ∈ o.leaves, fresh a ≠ p.1) :
    ∀ q ∈ (o.to fresh true target).leaves, ∀ p ∈ o.leaves, q.1 ≠ p.1 := by
  intro q hq p hp
  rw [leaves_eq_map, List.mem_map] at hq
  obtain ⟨r, _, rfl⟩ := hq
  simp only [leafMap, resultId, Bool.true_or, if_true]
  exact hdisj _ p hp
theorem noop_shares (fresh : Nat → Nat) (o : OTree) : (o.to fresh false none).leaves = o.leaves := by
  rw [leaves_eq_map]
  have : leafMap fresh false none = id := by
    funext p
    simp [leafMap, resultId, convertDType]
  rw [this, List.map_id]
end M
