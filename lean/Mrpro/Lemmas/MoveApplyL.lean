import Mrpro.Model.MoveData
import Mrpro.Lemmas.MoveDataL
import Mathlib.Data.List.Basic
import Mathlib.Logic.Function.Basic
/-! Proofs about `MoveDataMixin.apply(function)` (= `clone()` followed by `apply_(function)`). -/
namespace M

mutual
theorem apply_leaves_aux (fresh g : Nat → Nat) (h : DType → DType) :
    ∀ o : OTree, (o.apply fresh g h).leaves = o.leaves.map (fun p => (g (fresh p.1), h p.2))
  | .leaf id dt => by simp [OTree.apply, OTree.leaves]
  | .node cs => by
      simp only [OTree.apply, OTree.leaves]
      exact applyList_leaves_aux fresh g h cs
theorem applyList_leaves_aux (fresh g : Nat → Nat) (h : DType → DType) :
    ∀ cs : List OTree, OTree.leavesList (OTree.applyList fresh g h cs) =
      (OTree.leavesList cs).map (fun p => (g (fresh p.1), h p.2))
  | [] => by simp [OTree.applyList, OTree.leavesList]
  | c :: cs => by
      simp only [OTree.applyList, OTree.leavesList, List.map_append]
      rw [apply_leaves_aux fresh g h c, applyList_leaves_aux fresh g h cs]
end

/-- leaves of the result, in field order -/
theorem apply_leaves (fresh g : Nat → Nat) (h : DType → DType) (o : OTree) :
    (o.apply fresh g h).leaves = o.leaves.map (fun p => (g (fresh p.1), h p.2)) :=
  apply_leaves_aux fresh g h o

/-- structure (number and order of fields) is preserved -/
theorem apply_leaves_length (fresh g : Nat → Nat) (h : DType → DType) (o : OTree) :
    (o.apply fresh g h).leaves.length = o.leaves.length := by
  rw [apply_leaves, List.length_map]

theorem getElem_leaves_apply (fresh g : Nat → Nat) (h : DType → DType) (o : OTree) (i : Nat)
    (hi : i < o.leaves.length) (hi' : i < (o.apply fresh g h).leaves.length) :
    (o.apply fresh g h).leaves[i]'hi' = (g (fresh (o.leaves[i]).1), h (o.leaves[i]).2) := by
  simp only [apply_leaves, List.getElem_map]

/-- **the result never contains a tensor object of the source**, whatever the function does with what it is given (return it,
modify it in place, or return something new): `S` = the identities alive before the call (it contains the source's), clones are
new objects, and the function returns either its argument or an object that did not exist before -/
theorem apply_no_share (fresh g : Nat → Nat) (h : DType → DType) (o : OTree) (S : List Nat)
    (hsrc : ∀ p ∈ o.leaves, p.1 ∈ S) (hfresh : ∀ i ∈ S, fresh i ∉ S) (hg : ∀ j, j ∉ S → g j ∉ S) :
    ∀ q ∈ (o.apply fresh g h).leaves, q.1 ∉ S := by
  intro q hq
  rw [apply_leaves, List.mem_map] at hq
  obtain ⟨p, hp, rfl⟩ := hq
  exact hg _ (hfresh _ (hsrc p hp))

/-- fields that were one object are one object in the result -/
theorem apply_alias_kept (fresh g : Nat → Nat) (h : DType → DType) (o : OTree) (i j : Nat)
    (hi : i < o.leaves.length) (hj : j < o.leaves.length)
    (heq : (o.leaves[i]'hi).1 = (o.leaves[j]'hj).1) :
    ((o.apply fresh g h).leaves[i]'(by rw [apply_leaves_length]; exact hi)).1 = ((o.apply fresh g h).leaves[j]'(by rw [apply_leaves_length]; exact hj)).1 := by
  rw [getElem_leaves_apply fresh g h o i hi, getElem_leaves_apply fresh g h o j hj]
  simp only [heq]

/-- different objects stay different when clones are distinct and the function does not merge objects -/
theorem apply_alias_separate (fresh g : Nat → Nat) (h : DType → DType) (o : OTree) (hf : Function.Injective fresh) (hgi : Function.Injective g)
    (i j : Nat) (hi : i < o.leaves.length) (hj : j < o.leaves.length)
    (hne : (o.leaves[i]'hi).1 ≠ (o.leaves[j]'hj).1) :
    ((o.apply fresh g h).leaves[i]'(by rw [apply_leaves_length]; exact hi)).1 ≠ ((o.apply fresh g h).leaves[j]'(by rw [apply_leaves_length]; exact hj)).1 := by
  rw [getElem_leaves_apply fresh g h o i hi, getElem_leaves_apply fresh g h o j hj]
  exact fun heq => hne (hf (hgi heq))

/-- with the identity function `apply` is `clone()`: same leaves as `to` with copy = true and no target dtype -/
theorem apply_id_eq_clone (fresh : Nat → Nat) (o : OTree) :
    (o.apply fresh id id).leaves = (o.to fresh true none).leaves := by
  rw [apply_leaves, leaves_eq_map]
  have hfun : (fun p : Nat × DType => (id (fresh p.1), id p.2)) = leafMap fresh true none := by
    funext p
    simp [leafMap, resultId, convertDType]
  rw [hfun]

/-- WITNESS of what goes wrong without the clone (the function is handed the source's own objects, `fresh = id`): an in-place
function (`g = id`) returns the source's tensors -/
theorem apply_without_clone_shares : ∃ (o : OTree) (S : List Nat), (∀ p ∈ o.leaves, p.1 ∈ S) ∧ ∃ q ∈ (o.apply id id id).leaves, q.1 ∈ S := by
  refine ⟨.leaf 0 ⟨.float, 32⟩, [0], ?_, (0, ⟨.float, 32⟩), ?_, ?_⟩
  · intro p hp
    simp only [OTree.leaves, List.mem_singleton] at hp
    simp [hp]
  · simp [OTree.apply, OTree.leaves]
  · simp

end M
