import Mrpro.Model.WaveletLayout
import Mrpro.Model.Vec
import Mrpro.Lemmas.SrcL
import Mathlib.Data.List.Basic

/-! Proofs about the `WaveletOp` bookkeeping model `Mrpro/Model/WaveletLayout.lean`. -/
namespace M.Wavelet

theorem shapeSize_eq_prodL (s : List Nat) : shapeSize s = M.prodL s := by
  induction s with
  | nil => rfl
  | cons n s ih => simp [shapeSize, M.prodL, ih]

/-! ### stack / unstack -/

theorem splitSizes_flatten {K : Type} (blocks : List (List K)) :
    splitSizes (blocks.map List.length) blocks.flatten = some blocks := by
  induction blocks with
  | nil => rfl
  | cons b bs ih => simp [splitSizes, ih]

theorem splitSizes_some {K : Type} (ns : List Nat) (v : List K) (bs : List (List K))
    (h : splitSizes ns v = some bs) : bs.flatten = v ∧ bs.map List.length = ns := by
  induction ns generalizing v bs with
  | nil =>
    cases v with
    | nil => simp [splitSizes] at h; subst h; simp
    | cons a v => simp [splitSizes] at h
  | cons n ns ih =>
    simp only [splitSizes] at h
    split at h
    · rename_i hn
      cases hr : splitSizes ns (v.drop n) with
      | none => simp [hr] at h
      | some bs' =>
        simp [hr] at h
        subst h
        obtain ⟨h1, h2⟩ := ih _ _ hr
        refine ⟨?_, ?_⟩
        · simp [h1]
        · simp [h2, hn]
    · simp at h

/-- unstacking inverts stacking when the blocks have the predicted sizes -/
theorem unstack_stack {K : Type} (shapes : List (List Nat)) (blocks : List (List K))
    (h : blocks.map List.length = shapes.map shapeSize) :
    unstack shapes (stack blocks) = some blocks := by
  unfold unstack stack
  rw [← h]
  exact splitSizes_flatten blocks

/-- whatever `unstack` returns restacks to the input and has the predicted block sizes -/
theorem stack_unstack {K : Type} (shapes : List (List Nat)) (v : List K) (bs : List (List K))
    (h : unstack shapes v = some bs) :
    stack bs = v ∧ bs.map List.length = shapes.map shapeSize :=
  splitSizes_some _ _ _ h

/-- `unstack` succeeds exactly on vectors of the total predicted length -/
theorem unstack_isSome_iff {K : Type} (shapes : List (List Nat)) (v : List K) :
    (unstack shapes v).isSome ↔ v.length = (shapes.map shapeSize).sum := by
  unfold unstack
  generalize shapes.map shapeSize = ns
  induction ns generalizing v with
  | nil => cases v <;> simp [splitSizes]
  | cons n ns ih =>
    simp only [splitSizes, List.sum_cons]
    split
    · rename_i hn
      rw [Option.isSome_map, ih]
      simp
      omega
    · simp
      omega

/-! ### format / undo format -/

theorem chunks_nil {B : Type} (k : Nat) : chunks k ([] : List B) = [] := by
  have : (0 + k - 1) / k = 0 := by
    rcases Nat.eq_zero_or_pos k with rfl | hk
    · simp
    · exact Nat.div_eq_of_lt (by omega)
  unfold chunks
  rw [List.length_nil, this]
  rfl

private theorem count_succ (n k : Nat) (hk : 0 < k) (hn : 0 < n) :
    (n + k - 1) / k = (n - k + k - 1) / k + 1 := by
  rcases Nat.lt_or_ge n k with h | h
  · have h1 : n - k + k - 1 = k - 1 := by omega
    rw [h1, Nat.div_eq_of_lt (by omega : k - 1 < k)]
    have : n + k - 1 = (n - 1) + k := by omega
    rw [this, Nat.add_div_right _ hk, Nat.div_eq_of_lt (by omega)]
  · have : n + k - 1 = (n - k + k - 1) + k := by omega
    rw [this, Nat.add_div_right _ hk]

theorem chunks_cons {B : Type} (k : Nat) (hk : 0 < k) (l : List B) (hl : l ≠ []) :
    chunks k l = l.take k :: chunks k (l.drop k) := by
  have hn : 0 < l.length := List.length_pos_iff.mpr hl
  unfold chunks
  rw [count_succ _ _ hk hn, List.range_succ_eq_map]
  simp only [List.map_cons, List.map_map, List.length_drop, Nat.zero_mul, List.drop_zero]
  congr 1
  apply List.map_congr_left
  intro j _
  simp only [Function.comp, List.drop_drop]
  congr 2
  rw [Nat.succ_mul]
  omega

theorem chunks_flatten {B : Type} (k : Nat) (hk : 0 < k) (l : List B) :
    (chunks k l).flatten = l := by
  induction hlen : l.length using Nat.strong_induction_on generalizing l with
  | _ n ih =>
    by_cases hl : l = []
    · subst hl; simp [chunks_nil]
    · rw [chunks_cons k hk l hl, List.flatten_cons,
        ih (l.drop k).length (by
          have : 0 < l.length := List.length_pos_iff.mpr hl
          simp; omega) (l.drop k) rfl]
      exact List.take_append_drop k l

theorem chunks_of_flatten {B : Type} (k : Nat) (hk : 0 < k) (ds : List (List B))
    (h : ∀ t ∈ ds, t.length = k) : chunks k ds.flatten = ds := by
  induction ds with
  | nil => simp [chunks_nil]
  | cons t ds ih =>
    have ht : t.length = k := h t (by simp)
    have hne : (t :: ds).flatten ≠ [] := by
      rw [List.flatten_cons]
      intro hc
      have h0 := (List.append_eq_nil_iff.mp hc).1
      subst h0
      simp at ht
      omega
    rw [chunks_cons k hk _ hne]
    simp only [List.flatten_cons]
    rw [List.take_left' ht, List.drop_left' ht, ih (fun t' ht' => h t' (by simp [ht']))]

/-- a list of `k * m` entries is cut into exactly `m` chunks of exactly `k` entries -/
theorem chunks_shape {B : Type} (k : Nat) (hk : 0 < k) (m : Nat) (l : List B)
    (h : l.length = k * m) : (chunks k l).length = m ∧ ∀ t ∈ chunks k l, t.length = k := by
  induction m generalizing l with
  | zero =>
    have : l = [] := List.length_eq_zero_iff.mp (by simpa using h)
    subst this
    simp [chunks_nil]
  | succ m ih =>
    have hl : l ≠ [] := by
      intro hc; subst hc
      simp [Nat.mul_succ] at h
      omega
    have hkl : k ≤ l.length := by rw [h, Nat.mul_succ]; omega
    have hd : (l.drop k).length = k * m := by
      rw [List.length_drop, h, Nat.mul_succ]; omega
    obtain ⟨h1, h2⟩ := ih (l.drop k) hd
    rw [chunks_cons k hk l hl]
    refine ⟨by simp [h1], ?_⟩
    intro t ht
    rcases List.mem_cons.mp ht with rfl | ht
    · simp [hkl]
    · exact h2 t ht

/-- `_undo_format_coeffs_nd ∘ _format_coeffs_nd = id` on transform outputs with `k` detail blocks
per level, for every `k ≥ 1` and every number of levels -/
theorem undoFormat_format {B : Type} (k : Nat) (hk : 0 < k) (c : B × List (List B))
    (h : ∀ t ∈ c.2, t.length = k) : undoFormatND k (formatND c) = some c := by
  obtain ⟨a, ds⟩ := c
  simp only [formatND, undoFormatND]
  rw [if_neg (by omega), chunks_of_flatten k hk ds h]

/-- `_format_coeffs_nd ∘ _undo_format_coeffs_nd = id` on every flat list on which the latter is
defined -/
theorem format_undoFormat {B : Type} (k : Nat) (flat : List B) (c : B × List (List B))
    (h : undoFormatND k flat = some c) : formatND c = flat := by
  cases flat with
  | nil => simp [undoFormatND] at h
  | cons a rest =>
    simp only [undoFormatND] at h
    split at h
    · simp at h
    · rename_i hk
      simp at h
      subst h
      simp [formatND, chunks_flatten k (Nat.pos_of_ne_zero hk)]

/-- a flat list of `1 + k · levels` blocks is regrouped into `levels` groups of exactly `k` blocks -/
theorem undoFormat_shape {B : Type} (k : Nat) (hk : 0 < k) (levels : Nat) (flat : List B)
    (hlen : flat.length = 1 + k * levels) :
    ∃ c, undoFormatND k flat = some c ∧ formatND c = flat ∧ c.2.length = levels
      ∧ ∀ t ∈ c.2, t.length = k := by
  cases flat with
  | nil => simp at hlen; omega
  | cons a rest =>
    have hr : rest.length = k * levels := by simp at hlen; omega
    obtain ⟨h1, h2⟩ := chunks_shape k hk levels rest hr
    refine ⟨(a, chunks k rest), ?_, ?_, h1, h2⟩
    · simp only [undoFormatND]; rw [if_neg (by omega)]
    · simp [formatND, chunks_flatten k hk]

/-- on flat lists of `1 + k · levels` blocks the strict (3-D, `zip(strict=True)`) variant does not
raise and agrees with the 2-D one -/
theorem undoFormatStrict_eq {B : Type} (k : Nat) (hk : 0 < k) (levels : Nat) (flat : List B)
    (hlen : flat.length = 1 + k * levels) : undoFormatStrict k flat = undoFormatND k flat := by
  obtain ⟨c, h1, _, _, h4⟩ := undoFormat_shape k hk levels flat hlen
  unfold undoFormatStrict
  rw [h1]
  have : (c.2.all fun t => t.length == k) = true := by
    rw [List.all_eq_true]
    intro t ht
    simp [h4 t ht]
  simp [this]

/-! ### `coefficients_shape` -/

theorem levelShape_length (L : Nat) (s : List Nat) : (levelShape L s).length = s.length := by
  simp [levelShape]

theorem levelShapes_length (L : Nat) (s : List Nat) (level : Nat) :
    (levelShapes L s level).length = level := by
  induction level generalizing s with
  | zero => rfl
  | succ n ih => simp [levelShapes, ih]

/-- every level shape has the number of dimensions of the domain -/
theorem levelShapes_dims (L : Nat) (s : List Nat) (level : Nat) :
    ∀ t ∈ levelShapes L s level, t.length = s.length := by
  induction level generalizing s with
  | zero => simp [levelShapes]
  | succ n ih =>
    intro t ht
    simp only [levelShapes, List.mem_cons] at ht
    rcases ht with rfl | ht
    · exact levelShape_length L s
    · rw [ih _ t ht, levelShape_length]

theorem levelShapes_succ_last (L : Nat) (s : List Nat) (level : Nat) :
    levelShapes L s (level + 1)
      = levelShapes L s level ++ [levelShape L ((levelShapes L s level).getLastD s)] := by
  induction level generalizing s with
  | zero => rfl
  | succ n ih =>
    rw [levelShapes, ih (levelShape L s)]
    conv_rhs => rw [levelShapes]
    simp only [List.cons_append, List.getLastD_cons]

private theorem length_flatten_replicate {α : Type} (k : Nat) (ls : List α) :
    ((ls.map (fun s => List.replicate k s)).flatten).length = ls.length * k := by
  induction ls with
  | nil => simp
  | cons s ls ih => simp [ih, Nat.succ_mul, Nat.add_comm]

private theorem sum_flatten_replicate {α : Type} (f : α → Nat) (k : Nat) (ls : List α) :
    (((ls.map (fun s => List.replicate k s)).flatten).map f).sum = k * (ls.map f).sum := by
  induction ls with
  | nil => simp
  | cons s ls ih =>
    simp only [List.map_cons, List.flatten_cons, List.map_append, List.sum_append, ih,
      List.map_replicate, List.sum_replicate_nat, List.sum_cons, Nat.mul_add]

private theorem headD_append {α : Type} (a b : List α) (x : α) :
    (a ++ b).headD x = a.headD (b.headD x) := by
  cases a <;> simp

private theorem headD_reverse_flatten_replicate {α : Type} (k : Nat) (hk : 0 < k) (ls : List α)
    (x : α) : ((ls.map (fun s => List.replicate k s)).flatten.reverse).headD x = ls.getLastD x := by
  induction ls generalizing x with
  | nil => simp
  | cons s ls ih =>
    simp only [List.map_cons, List.flatten_cons, List.reverse_append, List.reverse_replicate,
      headD_append, List.getLastD_cons]
    rw [ih]
    congr 1
    obtain ⟨j, rfl⟩ := Nat.exists_eq_succ_of_ne_zero (Nat.pos_iff_ne_zero.mp hk)
    simp [List.replicate_succ]

theorem coefficientsShape_length (L : Nat) (domain : List Nat) (level : Nat) :
    (coefficientsShape L domain level).length
      = if level = 0 then 1 else 1 + level * (2 ^ domain.length - 1) := by
  unfold coefficientsShape
  split
  · rfl
  · simp only [List.length_cons, List.length_reverse, length_flatten_replicate,
      levelShapes_length, nDirections]
    omega

theorem levelShapes_nil (L : Nat) (level : Nat) : ∀ t ∈ levelShapes L [] level, t = [] := by
  intro t ht
  exact List.length_eq_zero_iff.mp (levelShapes_dims L [] level t ht)

/-- the approximation entry (first entry) of `coefficients_shape` is the coarsest level shape -/
theorem coefficientsShape_head (L : Nat) (domain : List Nat) (level : Nat) :
    (coefficientsShape L domain level).head?
      = some ((levelShapes L domain level).getLastD domain) := by
  unfold coefficientsShape
  split
  · rename_i h; subst h; rfl
  · rename_i hl
    simp only [List.head?_cons, Option.some.injEq]
    cases domain with
    | nil =>
      -- zero dimensions (outside Python's domain): every shape is `[]`
      have hne : levelShapes L [] level ≠ [] := by
        intro hc
        have := congrArg List.length hc
        rw [levelShapes_length] at this
        exact hl this
      have : (levelShapes L [] level).getLastD [] = [] := by
        rw [List.getLastD_eq_getLast?, ]
        cases hq : (levelShapes L [] level).getLast? with
        | none => rfl
        | some t => exact levelShapes_nil L level t (List.mem_of_getLast? hq)
      simpa [nDirections] using this
    | cons n dom =>
      have hk : 0 < nDirections (n :: dom).length := by
        simp only [nDirections, List.length_cons]
        have : 2 ≤ 2 ^ (dom.length + 1) := by
          rw [Nat.pow_succ]; have := Nat.one_le_two_pow (n := dom.length); omega
        omega
      rw [headD_reverse_flatten_replicate _ hk]
      have hne : levelShapes L (n :: dom) level ≠ [] := by
        intro hc
        have := congrArg List.length hc
        rw [levelShapes_length] at this
        exact hl this
      cases hq : levelShapes L (n :: dom) level with
      | nil => exact absurd hq hne
      | cons a b => simp only [List.getLastD_cons]

/-- the total number of stacked coefficients: the approximation block of the coarsest level plus
`2^d − 1` detail blocks for each level (`level = 0`: the domain itself) -/
theorem coefficientsShape_total (L : Nat) (domain : List Nat) (level : Nat) :
    ((coefficientsShape L domain level).map shapeSize).sum
      = shapeSize ((levelShapes L domain level).getLastD domain)
        + (2 ^ domain.length - 1) * ((levelShapes L domain level).map shapeSize).sum := by
  have hh := coefficientsShape_head L domain level
  unfold coefficientsShape at hh ⊢
  split
  · rename_i h; subst h; simp [levelShapes]
  · rename_i hl
    rw [if_neg hl] at hh
    simp only [List.head?_cons, Option.some.injEq] at hh
    rw [List.map_cons, List.sum_cons, hh, List.map_reverse, List.sum_reverse,
      sum_flatten_replicate]
    rfl

/-! ### the level shape is the PyWavelets coefficient length -/

/-- for even filter length each entry is `⌊(n + L − 1)/2⌋`, `pywt.dwt_coeff_len(n, L, 'zero')` -/
theorem levelShape_eq_pywt (L : Nat) (hL : L % 2 = 0) (hL0 : 0 < L) (shape : List Nat) :
    levelShape L shape = shape.map (fun n => (n + L - 1) / 2) := by
  unfold levelShape
  apply List.map_congr_left
  intro n _
  omega

/-- link to the expression translated from the source (`M.Src.wavelet_level_shape`) -/
theorem levelShape_eq_src (L : Nat) (hL : L % 2 = 0) (hL0 : 0 < L) (n : Nat) :
    levelShape L [n] = [(M.Src.wavelet_level_shape n L).toNat] := by
  rw [M.SrcL.wavelet_level_shape_eq n L hL hL0, Int.toNat_natCast, levelShape_eq_pywt L hL hL0]
  rfl

theorem levelShape_eq_src_map (L : Nat) (hL : L % 2 = 0) (hL0 : 0 < L) (shape : List Nat) :
    levelShape L shape
      = shape.map (fun (n : Nat) => (M.Src.wavelet_level_shape (n : Int) (L : Int)).toNat) := by
  rw [levelShape_eq_pywt L hL hL0]
  apply List.map_congr_left
  intro n _
  rw [M.SrcL.wavelet_level_shape_eq n L hL hL0, Int.toNat_natCast]

/-! ### monotonic facts -/

theorem levelShape_pos (L : Nat) (hL : 2 ≤ L) (shape : List Nat) (h : ∀ n ∈ shape, 0 < n) :
    ∀ m ∈ levelShape L shape, 0 < m := by
  intro m hm
  simp only [levelShape, List.mem_map] at hm
  obtain ⟨n, hn, rfl⟩ := hm
  have := h n hn
  omega

theorem levelShapes_pos (L : Nat) (hL : 2 ≤ L) (shape : List Nat) (level : Nat)
    (h : ∀ n ∈ shape, 0 < n) : ∀ s ∈ levelShapes L shape level, ∀ m ∈ s, 0 < m := by
  induction level generalizing shape with
  | zero => simp [levelShapes]
  | succ k ih =>
    intro s hs
    simp only [levelShapes, List.mem_cons] at hs
    rcases hs with rfl | hs
    · exact levelShape_pos L hL shape h
    · exact ih _ (levelShape_pos L hL shape h) s hs

/-- every stacked block is non-empty when the domain is -/
theorem shapeSize_pos (s : List Nat) (h : ∀ m ∈ s, 0 < m) : 0 < shapeSize s := by
  induction s with
  | nil => simp [shapeSize]
  | cons n s ih =>
    simp only [shapeSize]
    exact Nat.mul_pos (h n (by simp)) (ih (fun m hm => h m (by simp [hm])))

/-- a dimension that is at least the filter length does not grow (and shrinks strictly if positive) -/
theorem levelShape_le (L : Nat) (shape : List Nat) (h : ∀ n ∈ shape, L ≤ n) :
    List.Forall₂ (fun n m => m ≤ n ∧ (0 < n → m < n)) shape (levelShape L shape) := by
  unfold levelShape
  induction shape with
  | nil => exact List.Forall₂.nil
  | cons n s ih =>
    rw [List.map_cons]
    refine List.Forall₂.cons ?_ (ih (fun m hm => h m (by simp [hm])))
    have := h n (by simp)
    omega

/-- for even `L` the sizes never fall below `L − 1` (the fixed point of the recursion) -/
theorem levelShape_ge (L : Nat) (hL : L % 2 = 0) (shape : List Nat) (h : ∀ n ∈ shape, L - 1 ≤ n) :
    ∀ m ∈ levelShape L shape, L - 1 ≤ m := by
  intro m hm
  simp only [levelShape, List.mem_map] at hm
  obtain ⟨n, hn, rfl⟩ := hm
  have := h n hn
  omega

/-! ### predicted shapes = shapes of the transform output; the whole bookkeeping round trip -/

/-- a transform that follows the PyWavelets length rule level by level (`nestedSizes`) returns, after
`_format_coeffs_nd`, blocks of exactly the sizes `coefficients_shape` predicts -/
theorem formatND_nestedSizes (L : Nat) (domain : List Nat) (level : Nat) :
    formatND (nestedSizes L domain level) = (coefficientsShape L domain level).map shapeSize := by
  have hh := coefficientsShape_head L domain level
  unfold coefficientsShape at hh ⊢
  split
  · rename_i h; subst h; simp [formatND, nestedSizes, levelShapes]
  · rename_i hl
    rw [if_neg hl] at hh
    simp only [List.head?_cons, Option.some.injEq] at hh
    simp only [formatND, nestedSizes, List.map_cons, hh, List.cons.injEq, true_and]
    generalize levelShapes L domain level = ls
    generalize nDirections domain.length = k
    induction ls with
    | nil => simp
    | cons s ls ih =>
      simp only [List.reverse_cons, List.map_append, List.map_cons, List.map_nil,
        List.flatten_append, List.flatten_cons, List.flatten_nil, List.append_nil,
        List.reverse_append, List.reverse_replicate, List.map_replicate] at ih ⊢
      rw [ih]

/-- forward-side bookkeeping followed by adjoint-side bookkeeping is the identity on every transform
output `c = [a, (d₁…d_k)_n, …, (d₁…d_k)_1]` whose blocks have the predicted sizes:
`_undo_format(_stacked_tensor_to_coeff(_coeff_to_stacked_tensor(_format(c)))) = c` -/
theorem bookkeeping_roundtrip {K : Type} (L : Nat) (domain : List Nat) (level : Nat)
    (c : List K × List (List (List K)))
    (hk : 0 < nDirections domain.length)
    (hdir : ∀ t ∈ c.2, t.length = nDirections domain.length)
    (hshape : (formatND c).map List.length = (coefficientsShape L domain level).map shapeSize) :
    (unstack (coefficientsShape L domain level) (stack (formatND c))).bind
        (undoFormatND (nDirections domain.length)) = some c := by
  rw [unstack_stack _ _ hshape]
  simp only [Option.bind_some]
  exact undoFormat_format _ hk c hdir

/-- the same with the hypothesis on the transform spelled out: block sizes as PyWavelets returns
them (`nestedSizes`, i.e. `⌊(n+L−1)/2⌋` per dimension and level for even `L`, `levelShape_eq_pywt`) -/
theorem bookkeeping_roundtrip_pywt {K : Type} (L : Nat) (domain : List Nat) (level : Nat)
    (c : List K × List (List (List K)))
    (hd : domain ≠ [])
    (hsizes : (c.1.length, c.2.map (fun t => t.map List.length)) = nestedSizes L domain level) :
    (unstack (coefficientsShape L domain level) (stack (formatND c))).bind
        (undoFormatND (nDirections domain.length)) = some c := by
  have hk : 0 < nDirections domain.length := by
    cases domain with
    | nil => exact absurd rfl hd
    | cons n dom =>
      simp only [nDirections, List.length_cons]
      have : 2 ≤ 2 ^ (dom.length + 1) := by
        rw [Nat.pow_succ]; have := Nat.one_le_two_pow (n := dom.length); omega
      omega
  apply bookkeeping_roundtrip L domain level c hk
  · intro t ht
    have h2 := congrArg Prod.snd hsizes
    simp only [nestedSizes] at h2
    have hmem : t.map List.length ∈ c.2.map (fun t => t.map List.length) :=
      List.mem_map.mpr ⟨t, ht, rfl⟩
    rw [h2, List.mem_map] at hmem
    obtain ⟨s, _, hs⟩ := hmem
    have := congrArg List.length hs
    simpa using this.symm
  · rw [← formatND_nestedSizes, ← hsizes]
    simp [formatND, List.map_flatten]

/-- and the other direction: whatever stacked vector of the right total length the adjoint receives,
unstacking + regrouping followed by formatting + stacking returns it unchanged -/
theorem bookkeeping_roundtrip_adjoint {K : Type} (L : Nat) (domain : List Nat) (level : Nat)
    (v : List K) (bs : List (List K)) (c : List K × List (List (List K)))
    (h1 : unstack (coefficientsShape L domain level) v = some bs)
    (h2 : undoFormatND (nDirections domain.length) bs = some c) :
    stack (formatND c) = v := by
  rw [format_undoFormat _ _ _ h2]
  exact (stack_unstack _ _ _ h1).1

end M.Wavelet
