import Mrpro.Model.Ops
import Mrpro.Lemmas.Basic
/-! Proofs of the adjoint identities stated in `Mrpro/Props/C01.lean`. -/
namespace M
open Finset
variable {K : Type} [CommRing K] [StarRing K]

theorem padShift_antisymm (a b : Nat) : padShift a b = - padShift b a := by
  unfold padShift; omega

theorem padCrop_adjoint (a b : Nat) (x y : Nat → K) :
    inner b (padCrop a b x) y = inner a x (padCrop b a y) := by
  simp only [inner_eq]
  have L : ∀ j ∈ range b, star (padCrop a b x j) * y j
      = ∑ i ∈ range a, if (j : Int) = i + padShift a b then star (x i) * y j else 0 := by
    intro j hj
    unfold padCrop padCropWith
    simp only
    split_ifs with hc
    · rw [Finset.sum_eq_single (((j:Int) - padShift a b).toNat)]
      · rw [if_pos (by omega)]
      · intro i _ hi; rw [if_neg (by omega)]
      · intro hn; exfalso; apply hn; rw [Finset.mem_range]; omega
    · rw [star_zero, zero_mul]; symm; apply Finset.sum_eq_zero
      intro i hi; rw [Finset.mem_range] at hi; rw [if_neg (by omega)]
  have R : ∀ i ∈ range a, star (x i) * padCrop b a y i
      = ∑ j ∈ range b, if (j : Int) = i + padShift a b then star (x i) * y j else 0 := by
    intro i hi
    unfold padCrop padCropWith
    simp only
    rw [padShift_antisymm b a]
    split_ifs with hc
    · rw [Finset.sum_eq_single (((i:Int) - -padShift a b).toNat)]
      · rw [if_pos (by omega)]
      · intro j _ hj; rw [if_neg (by omega)]
      · intro hn; exfalso; apply hn; rw [Finset.mem_range]; omega
    · rw [mul_zero]; symm; apply Finset.sum_eq_zero
      intro j hj; rw [Finset.mem_range] at hj; rw [if_neg (by omega)]
  rw [Finset.sum_congr rfl L, Finset.sum_congr rfl R, Finset.sum_comm]

theorem gather_scatterAdd_adjoint (S G : Nat) (idx : Nat → Option Nat) (x y : Nat → K) :
    inner S (gather G idx x) y = inner G x (scatterAdd S idx y) := by
  simp only [inner_eq]
  have L : ∀ s ∈ range S, star (gather G idx x s) * y s
      = ∑ g ∈ range G, if idx s = some g then star (x g) * y s else 0 := by
    intro s _
    unfold gather
    cases hi : idx s with
    | none => simp
    | some g =>
      simp only [Option.some.injEq]
      simp only [Finset.sum_ite_eq, Finset.mem_range]
      split_ifs with hg
      · rfl
      · rw [star_zero, zero_mul]
  have R : ∀ g ∈ range G, star (x g) * scatterAdd S idx y g
      = ∑ s ∈ range S, if idx s = some g then star (x g) * y s else 0 := by
    intro g _
    unfold scatterAdd
    rw [sumTo_eq, Finset.mul_sum]
    apply Finset.sum_congr rfl
    intro s _
    rw [mul_ite, mul_zero]
  rw [Finset.sum_congr rfl L, Finset.sum_congr rfl R, Finset.sum_comm]

theorem scatterLast_not_adjoint :
    ∃ (idx : Nat → Option Nat) (x y : Nat → Int),
      inner 2 (gather 1 idx x) y ≠ inner 1 x (scatterLast 2 idx y) := by
  refine ⟨fun _ => some 0, fun _ => 1, fun _ => 1, ?_⟩
  decide

omit [StarRing K] in
/-- shifting a sum with zero boundary -/
theorem sum_shift_zero (n : Nat) (a b : Nat → K) :
    ∑ i ∈ range n, (if 0 < i then a (i - 1) else 0) * b i
      = ∑ i ∈ range n, a i * (if i + 1 < n then b (i + 1) else 0) := by
  cases n with
  | zero => simp
  | succ k =>
    rw [Finset.sum_range_succ', Finset.sum_range_succ]
    simp only [Nat.lt_irrefl, if_false, zero_mul, mul_zero, add_zero, Nat.zero_lt_succ, if_true,
      Nat.add_sub_cancel]
    apply Finset.sum_congr rfl
    intro i hi
    rw [Finset.mem_range] at hi
    rw [if_pos (by omega)]

theorem mod_pred_succ {n i : Nat} (hi : i < n) : ((i + n - 1) % n + 1) % n = i := by
  rw [Nat.mod_add_mod, show i + n - 1 + 1 = i + n by omega, Nat.add_mod_right, Nat.mod_eq_of_lt hi]

theorem mod_succ_pred {n i : Nat} (hi : i < n) : ((i + 1) % n + n - 1) % n = i := by
  rw [Nat.add_sub_assoc (by omega), Nat.mod_add_mod, show i + 1 + (n - 1) = i + n by omega,
    Nat.add_mod_right, Nat.mod_eq_of_lt hi]

omit [StarRing K] in
/-- shifting a sum circularly -/
theorem sum_shift_circ (n : Nat) (a b : Nat → K) :
    ∑ i ∈ range n, a ((i + n - 1) % n) * b i = ∑ i ∈ range n, a i * b ((i + 1) % n) := by
  refine Finset.sum_nbij' (fun i => (i + n - 1) % n) (fun j => (j + 1) % n) ?_ ?_ ?_ ?_ ?_
  · intro i hi; rw [Finset.mem_range] at hi ⊢; exact Nat.mod_lt _ (by omega)
  · intro i hi; rw [Finset.mem_range] at hi ⊢; exact Nat.mod_lt _ (by omega)
  · intro i hi; rw [Finset.mem_range] at hi; exact mod_pred_succ hi
  · intro i hi; rw [Finset.mem_range] at hi; exact mod_succ_pred hi
  · intro i hi; rw [Finset.mem_range] at hi; rw [mod_pred_succ hi]

theorem corr3_adjoint (circular : Bool) (k0 k1 k2 : K) (h0 : star k0 = k0) (h1 : star k1 = k1)
    (h2 : star k2 = k2) (n : Nat) (x y : Nat → K) :
    inner n (corr3 circular k0 k1 k2 n x) y = inner n x (corr3 circular k2 k1 k0 n y) := by
  simp only [inner_eq]
  cases circular with
  | false =>
    have A := sum_shift_zero n (fun i => star (x i)) y
    have B := sum_shift_zero n y (fun i => star (x i))
    simp only [corr3, Bool.false_eq_true, if_false, star_add, star_mul', h0, h1, h2, apply_ite star,
      star_zero, add_mul, mul_add, Finset.sum_add_distrib]
    have e1 : ∑ i ∈ range n, k0 * (if 0 < i then star (x (i - 1)) else 0) * y i
        = ∑ i ∈ range n, star (x i) * (k0 * if i + 1 < n then y (i + 1) else 0) := by
      have : ∀ i, k0 * (if 0 < i then star (x (i - 1)) else 0) * y i
          = k0 * ((if 0 < i then star (x (i - 1)) else 0) * y i) := fun i => by ring
      simp only [this]
      rw [← Finset.mul_sum, A, Finset.mul_sum]
      apply Finset.sum_congr rfl; intro i _; ring
    have e2 : ∑ i ∈ range n, k2 * (if i + 1 < n then star (x (i + 1)) else 0) * y i
        = ∑ i ∈ range n, star (x i) * (k2 * if 0 < i then y (i - 1) else 0) := by
      have : ∀ i, k2 * (if i + 1 < n then star (x (i + 1)) else 0) * y i
          = k2 * (y i * (if i + 1 < n then star (x (i + 1)) else 0)) := fun i => by ring
      simp only [this]
      rw [← Finset.mul_sum, ← B, Finset.mul_sum]
      apply Finset.sum_congr rfl; intro i _; ring
    have e3 : ∑ i ∈ range n, k1 * star (x i) * y i = ∑ i ∈ range n, star (x i) * (k1 * y i) := by
      apply Finset.sum_congr rfl; intro i _; ring
    rw [e1, e2, e3]; ring
  | true =>
    have A := sum_shift_circ n (fun i => star (x i)) y
    have B := sum_shift_circ n y (fun i => star (x i))
    simp only [corr3, if_true, star_add, star_mul', h0, h1, h2,
      add_mul, mul_add, Finset.sum_add_distrib]
    have e1 : ∑ i ∈ range n, k0 * star (x ((i + n - 1) % n)) * y i
        = ∑ i ∈ range n, star (x i) * (k0 * y ((i + 1) % n)) := by
      have : ∀ i, k0 * star (x ((i + n - 1) % n)) * y i
          = k0 * (star (x ((i + n - 1) % n)) * y i) := fun i => by ring
      simp only [this]
      rw [← Finset.mul_sum, A, Finset.mul_sum]
      apply Finset.sum_congr rfl; intro i _; ring
    have e2 : ∑ i ∈ range n, k2 * star (x ((i + 1) % n)) * y i
        = ∑ i ∈ range n, star (x i) * (k2 * y ((i + n - 1) % n)) := by
      have : ∀ i, k2 * star (x ((i + 1) % n)) * y i
          = k2 * (y i * star (x ((i + 1) % n))) := fun i => by ring
      simp only [this]
      rw [← Finset.mul_sum, ← B, Finset.mul_sum]
      apply Finset.sum_congr rfl; intro i _; ring
    have e3 : ∑ i ∈ range n, k1 * star (x i) * y i = ∑ i ∈ range n, star (x i) * (k1 * y i) := by
      apply Finset.sum_congr rfl; intro i _; ring
    rw [e1, e2, e3]; ring

theorem diagMul_adjoint (n : Nat) (d x y : Nat → K) :
    inner n (diagMul d x) y = inner n x (diagMulConj d y) := by
  simp only [inner_eq]
  apply Finset.sum_congr rfl
  intro i _
  simp only [diagMul, diagMulConj, conj_eq_star, star_mul']
  ring

/-- a sum over `range (a*b)` as a double sum (row-major) -/
theorem sum_range_mul {M : Type} [AddCommMonoid M] (a b : Nat) (g : Nat → M) :
    ∑ f ∈ range (a * b), g f = ∑ p ∈ range a, ∑ q ∈ range b, g (p * b + q) := by
  induction a with
  | zero => simp
  | succ a ih =>
    rw [Nat.succ_mul, Finset.sum_range_add, ih, Finset.sum_range_succ]

theorem sens_adjoint (coils n : Nat) (hn : 0 < n) (csm x y : Nat → K) :
    inner (coils * n) (sensFwd n csm x) y = inner n x (sensAdj coils n csm y) := by
  have _ := hn
  simp only [inner_eq]
  rw [sum_range_mul]
  simp only [sensAdj, sumTo_eq, Finset.mul_sum, conj_eq_star]
  rw [Finset.sum_comm]
  apply Finset.sum_congr rfl; intro i hi
  apply Finset.sum_congr rfl; intro c _
  rw [Finset.mem_range] at hi
  simp only [sensFwd]
  rw [Nat.add_comm (c * n) i, Nat.add_mul_mod_self_right, Nat.mod_eq_of_lt hi, star_mul']
  ring

theorem matVec_adjoint (m n : Nat) (A x y : Nat → K) :
    inner m (matVec n A x) y = inner n x (matVecH m n A y) := by
  simp only [inner_eq, matVec, matVecH, sumTo_eq, star_sum, Finset.sum_mul, Finset.mul_sum,
    conj_eq_star, star_mul']
  rw [Finset.sum_comm]
  apply Finset.sum_congr rfl; intro j _
  apply Finset.sum_congr rfl; intro i _
  ring

theorem permute_adjoint (n : Nat) (σ τ : Nat → Nat) (hσ : ∀ i, i < n → σ i < n) (hτ : ∀ i, i < n → τ i < n)
    (h1 : ∀ i, i < n → τ (σ i) = i) (h2 : ∀ i, i < n → σ (τ i) = i) (x y : Nat → K) :
    inner n (permute σ x) y = inner n x (permute τ y) := by
  simp only [inner_eq, permute]
  refine Finset.sum_nbij' σ τ ?_ ?_ ?_ ?_ ?_
  · intro i hi; rw [Finset.mem_range] at hi ⊢; exact hσ i hi
  · intro i hi; rw [Finset.mem_range] at hi ⊢; exact hτ i hi
  · intro i hi; rw [Finset.mem_range] at hi; exact h1 i hi
  · intro i hi; rw [Finset.mem_range] at hi; exact h2 i hi
  · intro i hi; rw [Finset.mem_range] at hi; rw [h1 i hi]

theorem shift_unshift {n i : Nat} (hi : i < n) : ((i + n - n / 2) % n + n / 2) % n = i := by
  rw [Nat.mod_add_mod, show i + n - n / 2 + n / 2 = i + n by omega, Nat.add_mod_right,
    Nat.mod_eq_of_lt hi]

theorem unshift_shift {n i : Nat} (hi : i < n) : ((i + n / 2) % n + n - n / 2) % n = i := by
  rw [Nat.add_sub_assoc (by omega), Nat.mod_add_mod, show i + n / 2 + (n - n / 2) = i + n by omega,
    Nat.add_mod_right, Nat.mod_eq_of_lt hi]

theorem fftshift_adjoint (n : Nat) (x y : Nat → K) :
    inner n (fftshift n x) y = inner n x (ifftshift n y) :=
  permute_adjoint n (fun i => (i + n - n / 2) % n) (fun i => (i + n / 2) % n)
    (fun _ hi => Nat.mod_lt _ (by omega)) (fun _ hi => Nat.mod_lt _ (by omega))
    (fun _ hi => shift_unshift hi) (fun _ hi => unshift_shift hi) x y

theorem ifftshift_adjoint (n : Nat) (x y : Nat → K) :
    inner n (ifftshift n x) y = inner n x (fftshift n y) :=
  permute_adjoint n (fun i => (i + n / 2) % n) (fun i => (i + n - n / 2) % n)
    (fun _ hi => Nat.mod_lt _ (by omega)) (fun _ hi => Nat.mod_lt _ (by omega))
    (fun _ hi => unshift_shift hi) (fun _ hi => shift_unshift hi) x y

theorem dft_adjoint (n : Nat) (c : K) (hc : star c = c) (w : Nat → K) (x y : Nat → K) :
    inner n (dft n c w x) y = inner n x (idft n c w y) := by
  simp only [inner_eq, dft, idft, sumTo_eq, star_sum, Finset.sum_mul, Finset.mul_sum,
    conj_eq_star, star_mul', hc]
  rw [Finset.sum_comm]
  apply Finset.sum_congr rfl; intro j _
  apply Finset.sum_congr rfl; intro i _
  ring

theorem centredDft_adjoint (n : Nat) (c : K) (hc : star c = c) (w : Nat → K) (x y : Nat → K) :
    inner n (centredDft n c (fun t => w t) x) y = inner n x (centredIdft n c (fun t => w t) y) := by
  unfold centredDft centredIdft
  rw [fftshift_adjoint, dft_adjoint n c hc, ifftshift_adjoint]

omit [CommRing K] [StarRing K] in
theorem applyAlong_apply {inner n m : Nat} (op : (Nat → K) → (Nat → K)) (x : Nat → K) (o : Nat)
    {j i : Nat} (hj : j < m) (hi : i < inner) :
    applyAlong inner n m op x ((o * m + j) * inner + i) = op (fun t => x ((o * n + t) * inner + i)) j := by
  have hpos : 0 < inner := by omega
  have hmpos : 0 < m := by omega
  have e3 : ((o * m + j) * inner + i) % inner = i := by
    rw [Nat.add_comm, Nat.add_mul_mod_self_right, Nat.mod_eq_of_lt hi]
  have e2 : ((o * m + j) * inner + i) / inner = o * m + j := by
    rw [Nat.add_comm, Nat.add_mul_div_right _ _ hpos, Nat.div_eq_of_lt hi, Nat.zero_add]
  have e1 : ((o * m + j) * inner + i) / (m * inner) = o := by
    rw [Nat.mul_comm m inner, ← Nat.div_div_eq_div_mul, e2, Nat.add_comm,
      Nat.add_mul_div_right _ _ hmpos, Nat.div_eq_of_lt hj, Nat.zero_add]
  have e2' : ((o * m + j) * inner + i) / inner % m = j := by
    rw [e2, Nat.add_comm, Nat.add_mul_mod_self_right, Nat.mod_eq_of_lt hj]
  unfold applyAlong
  simp only [e1, e2', e3]

theorem sum_range_mul3 {M : Type} [AddCommMonoid M] (a b c : Nat) (g : Nat → M) :
    ∑ f ∈ range (a * b * c), g f
      = ∑ o ∈ range a, ∑ i ∈ range c, ∑ j ∈ range b, g ((o * b + j) * c + i) := by
  rw [sum_range_mul, sum_range_mul]
  apply Finset.sum_congr rfl; intro o _
  rw [Finset.sum_comm]

theorem applyAlong_adjoint (outer inner n m : Nat) (op opH : (Nat → K) → (Nat → K))
    (h : ∀ x y, M.inner m (op x) y = M.inner n x (opH y)) (x y : Nat → K) :
    M.inner (outer * m * inner) (applyAlong inner n m op x) y
      = M.inner (outer * n * inner) x (applyAlong inner m n opH y) := by
  rw [inner_eq, inner_eq, sum_range_mul3, sum_range_mul3]
  apply Finset.sum_congr rfl; intro o _
  apply Finset.sum_congr rfl; intro i hi
  rw [Finset.mem_range] at hi
  have hh := h (fun t => x ((o * n + t) * inner + i)) (fun j => y ((o * m + j) * inner + i))
  rw [inner_eq, inner_eq] at hh
  have L : ∀ j ∈ range m, star (applyAlong inner n m op x ((o * m + j) * inner + i)) * y ((o * m + j) * inner + i)
      = star (op (fun t => x ((o * n + t) * inner + i)) j) * y ((o * m + j) * inner + i) := by
    intro j hj; rw [Finset.mem_range] at hj; rw [applyAlong_apply op x o hj hi]
  have R : ∀ t ∈ range n, star (x ((o * n + t) * inner + i)) * applyAlong inner m n opH y ((o * n + t) * inner + i)
      = star (x ((o * n + t) * inner + i)) * opH (fun j => y ((o * m + j) * inner + i)) t := by
    intro t ht; rw [Finset.mem_range] at ht; rw [applyAlong_apply opH y o ht hi]
  rw [Finset.sum_congr rfl L, Finset.sum_congr rfl R]
  exact hh

end M
