import Mrpro.Gen.Src
import Mrpro.Model.PowerIter

/-! The assignments of `LinearOperator.operator_norm` translated from the Python source on every run (`Mrpro/Gen/Src.lean`:
`pi_norm0`, `pi_start`, `pi_apply`, `pi_estimate`, `pi_normalise`, `pi_old`) are the formulas of the hand-written loop
`M.powerLoop` / `M.powerRun`, for every vector type, inner product, square root, Gram map and stopping test — so the bound,
monotonicity, scale-freeness and convergence theorems of C19 are statements about the formulas in `LinearOperator.py` as it
stands.  Hand-modelled and tied by the correspondence check: the control flow (the `isclose` stopping test, the callback, the
zero-vector guard) and the dtype bookkeeping of the three statements that form `<v, G v>` (pinned by the translator as source text). -/

namespace M.SrcL
open M M.Src
variable {K V : Type} [Div K] [OfNat K 0] [OfNat K 1]

/-- one iteration of the loop, written with the source formulas -/
theorem powerLoop_succ_src (ops : VecOps K V) (sqrt : K → K) (G : V → V) (stop : K → K → Bool)
    (fuel : Nat) (v : V) (old last : K) (cb : List K) :
    powerLoop ops sqrt G stop (fuel + 1) v old last cb =
      (let vnew := pi_apply ops sqrt G v
       let est := pi_estimate ops sqrt G v vnew
       if stop est old then (est, cb.reverse)
       else powerLoop ops sqrt G stop fuel (pi_normalise ops sqrt G vnew) (pi_old ops sqrt G est) est (est :: cb)) := by
  first
    | rfl
    | simp only [powerLoop, pi_apply, pi_estimate, pi_normalise, pi_old]

/-- the start: the initial value is divided by its norm -/
theorem powerRun_src (ops : VecOps K V) (sqrt : K → K) (G : V → V) (stop : K → K → Bool) (v0 : V) (maxIter : Nat) :
    powerRun ops sqrt G stop v0 maxIter =
      powerLoop ops sqrt G stop maxIter (pi_start ops sqrt G v0 (pi_norm0 ops sqrt G v0)) 0 0 [] := by
  first
    | rfl
    | simp only [powerRun, pi_start, pi_norm0]

end M.SrcL
