import Mrpro.Model.CG
import Mathlib.LinearAlgebra.BilinearMap
import Mathlib.Algebra.Order.Field.Basic
import Mathlib.Tactic.Ring
import Mathlib.Tactic.FieldSimp
import Mathlib.Tactic.Linarith
/-! Proofs for `Mrpro/Props/C06.lean`. -/
namespace M
variable {K V : Type} [Field K] [LinearOrder K] [IsStrictOrderedRing K] [AddCommGroup V] [Module K V]

def modOps' (B : V →ₗ[K] V →ₗ[K] K) : VecOps K V :=
  ⟨fun u v => u + v, fun u v => u - v, fun c v => c • v, fun u v => B u v⟩
def start' (b : V) (x0 : Option V) : V := match x0 with | some v => v | none => b

variable (B : V →ₗ[K] V →ₗ[K] K) (H : V →ₗ[K] V)
  (symm : ∀ u v, B u v = B v u) (posB : ∀ v, v ≠ 0 → 0 < B v v)
  (selfadj : ∀ u v, B (H u) v = B u (H v)) (posH : ∀ v, v ≠ 0 → 0 < B v (H v))
include symm posB selfadj posH

theorem cg_no_nan (b : V) (x0 : Option V) (maxIter : Nat) (tol2 : Option K) :
    ∃ x reason tr, cgRun (modOps' B) (fun v => H v) b x0 maxIter tol2 = .ok x reason tr := by sorry

theorem cg_trace_residual (b : V) (x0 : Option V) (maxIter : Nat) (tol2 : Option K)
    (x : V) (reason : String) (tr : List (CGTrace V))
    (hrun : cgRun (modOps' B) (fun v => H v) b x0 maxIter tol2 = .ok x reason tr) :
    (∀ t ∈ tr, t.r = b - H t.x) ∧ tr.map (·.k) = List.range tr.length ∧ tr.length ≤ maxIter := by sorry

theorem cg_returns_last (b : V) (x0 : Option V) (maxIter : Nat) (tol2 : Option K)
    (x : V) (reason : String) (tr : List (CGTrace V))
    (hrun : cgRun (modOps' B) (fun v => H v) b x0 maxIter tol2 = .ok x reason tr) :
    x = ((tr.map (·.x)).getLast?).getD (start' b x0) := by sorry

theorem cg_exact_stop (b : V) (x0 : Option V) (maxIter : Nat) (tol2 : Option K)
    (x : V) (reason : String) (tr : List (CGTrace V))
    (hrun : cgRun (modOps' B) (fun v => H v) b x0 maxIter tol2 = .ok x reason tr)
    (hreason : reason = "zero-residual" ∨ reason = "zero-initial-residual") : H x = b := by sorry

theorem cg_tolerance_stop (b : V) (x0 : Option V) (maxIter : Nat) (t : K)
    (x : V) (tr : List (CGTrace V))
    (hrun : cgRun (modOps' B) (fun v => H v) b x0 maxIter (some t) = .ok x "tolerance" tr) :
    B (b - H x) (b - H x) < t := by sorry

theorem cg_error_monotone (b : V) (x0 : Option V) (maxIter : Nat) (tol2 : Option K)
    (x : V) (reason : String) (tr : List (CGTrace V)) (xs : V) (hxs : H xs = b)
    (hrun : cgRun (modOps' B) (fun v => H v) b x0 maxIter tol2 = .ok x reason tr) :
    List.IsChain (fun u v => B (xs - v) (H (xs - v)) ≤ B (xs - u) (H (xs - u))) (start' b x0 :: tr.map (·.x)) := by
  sorry

theorem cg_homogeneous (b : V) (x0 : Option V) (maxIter : Nat) (c : K) (hc : c ≠ 0)
    (x : V) (reason : String) (tr : List (CGTrace V))
    (hrun : cgRun (modOps' B) (fun v => H v) b x0 maxIter none = .ok x reason tr) :
    ∃ tr', cgRun (modOps' B) (fun v => H v) (c • b) (x0.map (fun v => c • v)) maxIter none = .ok (c • x) reason tr'
      ∧ tr'.map (·.x) = tr.map (fun t => c • t.x) := by sorry
end M
