import Mrpro.Model.CG
import Mathlib.LinearAlgebra.BilinearMap
import Mathlib.Algebra.Order.Field.Basic
import Mathlib.Tactic.Ring
import Mathlib.Tactic.FieldSimp
import Mathlib.Tactic.Linarith
import Mathlib.Tactic.Abel
/-! Proofs for `Mrpro/Props/C06.lean`. -/
namespace M
variable {K V : Type} [Field K] [LinearOrder K] [IsStrictOrderedRing K] [AddCommGroup V] [Module K V]

def modOps' (B : V →ₗ[K] V →ₗ[K] K) : VecOps K V :=
  ⟨fun u v => u + v, fun u v => u - v, fun c v => c • v, fun u v => B u v⟩
def start' (b : V) (x0 : Option V) : V := match x0 with | some v => v | none => b

section helpers
variable (B : V →ₗ[K] V →ₗ[K] K) (H : V →ₗ[K] V)

/-- the search direction of the iteration (`none` = division by zero) -/
def nextP (st : CGState K V) : Option V := match st.rrPrev with
  | none => some st.p
  | some prev => if prev = 0 then none else some (st.r + (B st.r st.r / prev) • st.p)

def tolHit (tol2 : Option K) (rr : K) : Bool :=
  match tol2 with | some t => decide (rr < t) | none => false

def stepSt (st : CGState K V) (p : V) : CGState K V :=
  { x := st.x + (B st.r st.r / B p (H p)) • p, r := st.r - (B st.r st.r / B p (H p)) • H p,
    p := p, rrPrev := some (B st.r st.r) }

def stepTr (st : CGState K V) (p : V) (k : Nat) : CGTrace V :=
  { x := st.x + (B st.r st.r / B p (H p)) • p, r := st.r - (B st.r st.r / B p (H p)) • H p, k := k }

omit [IsStrictOrderedRing K] in
theorem cgLoop_zero (tol2 : Option K) (k : Nat) (st : CGState K V) (tr : List (CGTrace V)) :
    cgLoop (modOps' B) (fun v => H v) tol2 0 k st tr = .ok st.x "budget" tr.reverse := rfl

omit [IsStrictOrderedRing K] in
theorem cgLoop_succ (tol2 : Option K) (fuel k : Nat) (st : CGState K V) (tr : List (CGTrace V)) :
    cgLoop (modOps' B) (fun v => H v) tol2 (fuel + 1) k st tr =
      if B st.r st.r = 0 then .ok st.x "zero-residual" tr.reverse
      else if tolHit tol2 (B st.r st.r) then .ok st.x "tolerance" tr.reverse
      else match nextP B st with
        | none => .nan k tr.reverse
        | some p =>
          if B p (H p) = 0 then .nan k tr.reverse
          else cgLoop (modOps' B) (fun v => H v) tol2 fuel (k + 1) (stepSt B H st p)
            (stepTr B H st p k :: tr) := rfl

/-- loop invariant -/
def Inv (b : V) (st : CGState K V) : Prop :=
  st.r = b - H st.x ∧
    (match st.rrPrev with
      | none => st.p = st.r
      | some prev => prev ≠ 0 ∧ B st.r st.p = 0)

omit [LinearOrder K] [IsStrictOrderedRing K] in
theorem step_res (b x r p : V) (α : K) (h : r = b - H x) :
    r - α • H p = b - H (x + α • p) := by
  rw [h, map_add, map_smul]; abel

omit [LinearOrder K] [IsStrictOrderedRing K] in
theorem step_orth (selfadj : ∀ u v, B (H u) v = B u (H v)) (r p : V)
    (hrp : B r p = B r r) (hphp : B p (H p) ≠ 0) :
    B (r - (B r r / B p (H p)) • H p) p = 0 := by
  rw [map_sub, map_smul, LinearMap.sub_apply, LinearMap.smul_apply, selfadj, hrp, smul_eq_mul,
    div_mul_cancel₀ _ hphp, sub_self]

omit [IsStrictOrderedRing K] in
theorem nextP_spec (b : V) (st : CGState K V) (hinv : Inv B H b st) :
    ∃ p, nextP B st = some p ∧ B st.r p = B st.r st.r := by
  obtain ⟨_, h2⟩ := hinv
  unfold nextP
  cases hprev : st.rrPrev with
  | none =>
    rw [hprev] at h2
    exact ⟨st.p, rfl, by rw [h2]⟩
  | some prev =>
    rw [hprev] at h2
    obtain ⟨hne, horth⟩ := h2
    refine ⟨_, if_neg hne, ?_⟩
    rw [map_add, map_smul, horth, smul_zero, add_zero]

theorem step_energy (symm : ∀ u v, B u v = B v u) (selfadj : ∀ u v, B (H u) v = B u (H v))
    (b xs x r p : V) (hxs : H xs = b) (hr : r = b - H x) (hrp : B r p = B r r)
    (hphp : 0 < B p (H p)) :
    B (xs - (x + (B r r / B p (H p)) • p)) (H (xs - (x + (B r r / B p (H p)) • p)))
      ≤ B (xs - x) (H (xs - x)) := by
  have he : H (xs - x) = r := by rw [map_sub, hxs, hr]
  have h1 : B (xs - x) (H p) = B r r := by rw [← selfadj, he, hrp]
  have h2 : B p r = B r r := by rw [symm, hrp]
  have hsplit : xs - (x + (B r r / B p (H p)) • p) = (xs - x) - (B r r / B p (H p)) • p := by abel
  rw [hsplit]
  generalize xs - x = e at he h1 ⊢
  have hne : B p (H p) ≠ 0 := ne_of_gt hphp
  have e1 : B r r / B p (H p) * B p (H p) = B r r := div_mul_cancel₀ _ hne
  have e2 : 0 ≤ B r r / B p (H p) * (B r r) := by
    have : B r r / B p (H p) * (B r r) = (B r r)^2 / B p (H p) := by field_simp
    rw [this]; exact div_nonneg (sq_nonneg _) hphp.le
  rw [map_sub H, map_smul H, he]
  simp only [map_sub, map_smul, LinearMap.sub_apply, LinearMap.smul_apply, smul_eq_mul]
  rw [h1, h2, e1]
  linarith

/-! scaling simulation (for `cg_homogeneous`) -/

def scSt (c : K) (st : CGState K V) : CGState K V :=
  { x := c • st.x, r := c • st.r, p := c • st.p, rrPrev := st.rrPrev.map (fun q => c * c * q) }

def scTr (c : K) (t : CGTrace V) : CGTrace V := { x := c • t.x, r := c • t.r, k := t.k }

omit [IsStrictOrderedRing K] in
theorem cgLoop_succ_none (fuel k : Nat) (st : CGState K V) (tr : List (CGTrace V)) :
    cgLoop (modOps' B) (fun v => H v) none (fuel + 1) k st tr =
      if B st.r st.r = 0 then .ok st.x "zero-residual" tr.reverse
      else match nextP B st with
        | none => .nan k tr.reverse
        | some p =>
          if B p (H p) = 0 then .nan k tr.reverse
          else cgLoop (modOps' B) (fun v => H v) none fuel (k + 1) (stepSt B H st p)
            (stepTr B H st p k :: tr) := rfl

omit [LinearOrder K] [IsStrictOrderedRing K] in
theorem B_smul_smul (c : K) (u v : V) : B (c • u) (c • v) = c * c * B u v := by
  rw [map_smul, map_smul, LinearMap.smul_apply, smul_eq_mul, smul_eq_mul, mul_assoc]

omit [IsStrictOrderedRing K] in
theorem nextP_scale (c : K) (hc : c ≠ 0) (st : CGState K V) :
    nextP B (scSt c st) = (nextP B st).map (fun v => c • v) := by
  have hcc : c * c ≠ 0 := mul_ne_zero hc hc
  unfold nextP scSt
  cases st.rrPrev with
  | none => rfl
  | some prev =>
    simp only [Option.map_some]
    by_cases hprev : prev = 0
    · rw [if_pos hprev, if_pos (by rw [hprev, mul_zero])]; rfl
    · rw [if_neg hprev, if_neg (mul_ne_zero hcc hprev), Option.map_some, B_smul_smul,
        mul_div_mul_left _ _ hcc, smul_add, smul_comm]

omit [LinearOrder K] [IsStrictOrderedRing K] in
theorem stepSt_scale (c : K) (hc : c ≠ 0) (st : CGState K V) (p : V) :
    stepSt B H (scSt c st) (c • p) = scSt c (stepSt B H st p) := by
  have hcc : c * c ≠ 0 := mul_ne_zero hc hc
  have hH : H (c • p) = c • H p := map_smul H c p
  simp only [stepSt, scSt, Option.map_some]
  rw [hH, B_smul_smul, B_smul_smul, mul_div_mul_left _ _ hcc, smul_add, smul_sub, smul_comm c,
    smul_comm c]

omit [LinearOrder K] [IsStrictOrderedRing K] in
theorem stepTr_scale (c : K) (hc : c ≠ 0) (st : CGState K V) (p : V) (k : Nat) :
    stepTr B H (scSt c st) (c • p) k = scTr c (stepTr B H st p k) := by
  have h := stepSt_scale B H c hc st p
  unfold stepSt scSt at h
  unfold stepTr scTr scSt
  simp only [CGState.mk.injEq] at h
  simp only [h.1, h.2.1]

omit [IsStrictOrderedRing K] in
theorem cgLoop_scale (c : K) (hc : c ≠ 0) :
    ∀ (fuel k : Nat) (st : CGState K V) (tr : List (CGTrace V)) (x : V) (reason : String)
      (out : List (CGTrace V)),
      cgLoop (modOps' B) (fun v => H v) none fuel k st tr = .ok x reason out →
      cgLoop (modOps' B) (fun v => H v) none fuel k (scSt c st) (tr.map (scTr c))
        = .ok (c • x) reason (out.map (scTr c)) := by
  have hcc : c * c ≠ 0 := mul_ne_zero hc hc
  intro fuel
  induction fuel with
  | zero =>
    intro k st tr x reason out h
    rw [cgLoop_zero] at h ⊢
    cases h
    rw [List.map_reverse]; rfl
  | succ fuel ih =>
    intro k st tr x reason out h
    have hB : B (scSt c st).r (scSt c st).r = c * c * B st.r st.r := B_smul_smul B c _ _
    rw [cgLoop_succ_none] at h ⊢
    by_cases hrr : B st.r st.r = 0
    · rw [if_pos hrr] at h
      rw [if_pos (by rw [hB, hrr, mul_zero])]
      cases h
      rw [List.map_reverse]; rfl
    · rw [if_neg hrr] at h
      rw [if_neg (by rw [hB]; exact mul_ne_zero hcc hrr), nextP_scale B c hc]
      cases hp : nextP B st with
      | none => rw [hp] at h; cases h
      | some p =>
        rw [hp] at h
        simp only [Option.map_some] at h ⊢
        by_cases hphp : B p (H p) = 0
        · rw [if_pos hphp] at h; cases h
        · rw [if_neg hphp] at h
          rw [if_neg (by rw [map_smul H, B_smul_smul]; exact mul_ne_zero hcc hphp),
            stepSt_scale B H c hc, stepTr_scale B H c hc, ← List.map_cons]
          exact ih _ _ _ _ _ _ h

end helpers

variable (B : V →ₗ[K] V →ₗ[K] K) (H : V →ₗ[K] V)
  (symm : ∀ u v, B u v = B v u) (posB : ∀ v, v ≠ 0 → 0 < B v v)
  (selfadj : ∀ u v, B (H u) v = B u (H v)) (posH : ∀ v, v ≠ 0 → 0 < B v (H v))
include symm posB selfadj posH

omit posB in
theorem inv_step (b : V) (st : CGState K V) (hinv : Inv B H b st) (hrr : B st.r st.r ≠ 0) :
    ∃ p, nextP B st = some p ∧ 0 < B p (H p) ∧ Inv B H b (stepSt B H st p) ∧
      (stepTr B H st p 0).r = b - H (stepTr B H st p 0).x ∧
      ∀ xs, H xs = b → B (xs - (stepSt B H st p).x) (H (xs - (stepSt B H st p).x))
        ≤ B (xs - st.x) (H (xs - st.x)) := by
  obtain ⟨p, hp, hrp⟩ := nextP_spec B H b st hinv
  have hp0 : p ≠ 0 := by
    rintro rfl
    rw [map_zero] at hrp
    exact hrr hrp.symm
  have hphp := posH p hp0
  refine ⟨p, hp, hphp, ⟨step_res H b _ _ _ _ hinv.1, hrr, ?_⟩, step_res H b _ _ _ _ hinv.1, ?_⟩
  · exact step_orth B H selfadj _ _ hrp (ne_of_gt hphp)
  · intro xs hxs
    exact step_energy B H symm selfadj b xs st.x st.r p hxs hinv.1 hrp hphp

theorem cgLoop_spec (b : V) (tol2 : Option K) :
    ∀ (fuel k : Nat) (st : CGState K V) (tr : List (CGTrace V)), Inv B H b st →
    ∃ x reason new,
      cgLoop (modOps' B) (fun v => H v) tol2 fuel k st tr = .ok x reason (tr.reverse ++ new)
      ∧ (∀ t ∈ new, t.r = b - H t.x)
      ∧ new.map (·.k) = List.range' k new.length
      ∧ new.length ≤ fuel
      ∧ x = ((new.map (·.x)).getLast?).getD st.x
      ∧ (∀ xs, H xs = b →
          List.IsChain (fun u v => B (xs - v) (H (xs - v)) ≤ B (xs - u) (H (xs - u)))
            (st.x :: new.map (·.x)))
      ∧ (reason = "zero-residual" → H x = b)
      ∧ (∀ t, reason = "tolerance" → tol2 = some t → B (b - H x) (b - H x) < t)
      ∧ reason ≠ "zero-initial-residual" := by
  intro fuel
  induction fuel with
  | zero =>
    intro k st tr _
    refine ⟨st.x, "budget", [], by simp [cgLoop_zero], by simp, by simp, by simp, by simp,
      fun _ _ => by simp, ?_, ?_, by decide⟩
    · intro h; exact absurd h (by decide)
    · intro t h; exact absurd h (by decide)
  | succ fuel ih =>
    intro k st tr hinv
    rw [cgLoop_succ]
    by_cases hrr : B st.r st.r = 0
    · rw [if_pos hrr]
      refine ⟨st.x, "zero-residual", [], by simp, by simp, by simp, by simp, by simp,
        fun _ _ => by simp, ?_, ?_, by decide⟩
      · intro _
        have hr0 : st.r = 0 := by
          by_contra hne
          exact (ne_of_gt (posB _ hne)) hrr
        have := hinv.1
        rw [hr0] at this
        exact (sub_eq_zero.mp this.symm).symm
      · intro t h; exact absurd h (by decide)
    · rw [if_neg hrr]
      by_cases htol : tolHit tol2 (B st.r st.r) = true
      · rw [if_pos htol]
        refine ⟨st.x, "tolerance", [], by simp, by simp, by simp, by simp, by simp,
          fun _ _ => by simp, ?_, ?_, by decide⟩
        · intro h; exact absurd h (by decide)
        · intro t _ ht
          subst ht
          rw [← hinv.1]
          simpa [tolHit] using htol
      · rw [if_neg htol]
        obtain ⟨p, hp, hphp, hinv', hres, hen⟩ := inv_step B H symm selfadj posH b st hinv hrr
        rw [hp]
        simp only
        rw [if_neg (ne_of_gt hphp)]
        obtain ⟨x, reason, new, hrun, h1, h2, h3, h4, h5, h6, h7, h8⟩ :=
          ih (k + 1) (stepSt B H st p) (stepTr B H st p k :: tr) hinv'
        refine ⟨x, reason, stepTr B H st p k :: new, ?_, ?_, ?_, ?_, ?_, ?_, h6, h7, h8⟩
        · rw [hrun]; simp
        · intro t ht
          rcases List.mem_cons.mp ht with rfl | ht
          · exact hres
          · exact h1 t ht
        · simp only [List.map_cons, List.length_cons, List.range'_succ]
          rw [h2]; rfl
        · simp only [List.length_cons]; omega
        · rw [h4, List.map_cons, List.getLast?_cons]; rfl
        · intro xs hxs
          rw [List.map_cons]
          exact List.isChain_cons_cons.mpr ⟨hen xs hxs, h5 xs hxs⟩

theorem cgRun_spec (b : V) (x0 : Option V) (maxIter : Nat) (tol2 : Option K) :
    ∃ x reason tr,
      cgRun (modOps' B) (fun v => H v) b x0 maxIter tol2 = .ok x reason tr
      ∧ (∀ t ∈ tr, t.r = b - H t.x)
      ∧ tr.map (·.k) = List.range tr.length
      ∧ tr.length ≤ maxIter
      ∧ x = ((tr.map (·.x)).getLast?).getD (start' b x0)
      ∧ (∀ xs, H xs = b →
          List.IsChain (fun u v => B (xs - v) (H (xs - v)) ≤ B (xs - u) (H (xs - u)))
            (start' b x0 :: tr.map (·.x)))
      ∧ (reason = "zero-residual" ∨ reason = "zero-initial-residual" → H x = b)
      ∧ (∀ t, reason = "tolerance" → tol2 = some t → B (b - H x) (b - H x) < t) := by
  have hinit : Inv B H b (cgInit (modOps' B) (fun v => H v) b x0) := ⟨rfl, rfl⟩
  have hx : (cgInit (modOps' B) (fun v => H v) b x0).x = start' b x0 := by
    cases x0 <;> rfl
  have hr : (cgInit (modOps' B) (fun v => H v) b x0).r = b - H (start' b x0) := by
    cases x0 <;> rfl
  by_cases hrr : B (cgInit (modOps' B) (fun v => H v) b x0).r (cgInit (modOps' B) (fun v => H v) b x0).r = 0
  · have hrun : cgRun (modOps' B) (fun v => H v) b x0 maxIter tol2
        = .ok (start' b x0) "zero-initial-residual" [] := by
      unfold cgRun
      simp only
      refine (if_pos hrr).trans ?_
      rw [hx]
    refine ⟨_, _, _, hrun, by simp, by simp, by simp, by simp, fun _ _ => by simp, ?_, ?_⟩
    · intro _
      have hr0 : b - H (start' b x0) = 0 := by
        rw [hr] at hrr
        by_contra hne
        exact (ne_of_gt (posB _ hne)) hrr
      exact (sub_eq_zero.mp hr0).symm
    · intro t h; exact absurd h (by decide)
  · obtain ⟨x, reason, new, hloop, h1, h2, h3, h4, h5, h6, h7, h8⟩ :=
      cgLoop_spec B H symm posB selfadj posH b tol2 maxIter 0 _ [] hinit
    have hrun : cgRun (modOps' B) (fun v => H v) b x0 maxIter tol2 = .ok x reason new := by
      unfold cgRun
      simp only
      refine (if_neg hrr).trans ?_
      rw [hloop]; simp
    rw [hx] at h4 h5
    refine ⟨x, reason, new, hrun, h1, ?_, h3, h4, h5, ?_, h7⟩
    · rw [h2, List.range_eq_range']
    · rintro (h | h)
      · exact h6 h
      · exact absurd h h8

theorem cg_no_nan (b : V) (x0 : Option V) (maxIter : Nat) (tol2 : Option K) :
    ∃ x reason tr, cgRun (modOps' B) (fun v => H v) b x0 maxIter tol2 = .ok x reason tr := by
  obtain ⟨x, reason, tr, h, _⟩ := cgRun_spec B H symm posB selfadj posH b x0 maxIter tol2
  exact ⟨x, reason, tr, h⟩

theorem cg_trace_residual (b : V) (x0 : Option V) (maxIter : Nat) (tol2 : Option K)
    (x : V) (reason : String) (tr : List (CGTrace V))
    (hrun : cgRun (modOps' B) (fun v => H v) b x0 maxIter tol2 = .ok x reason tr) :
    (∀ t ∈ tr, t.r = b - H t.x) ∧ tr.map (·.k) = List.range tr.length ∧ tr.length ≤ maxIter := by
  obtain ⟨x', reason', tr', h, h1, h2, h3, h4, h5, h6, h7⟩ :=
    cgRun_spec B H symm posB selfadj posH b x0 maxIter tol2
  rw [h] at hrun
  cases hrun
  exact ⟨h1, h2, h3⟩

theorem cg_returns_last (b : V) (x0 : Option V) (maxIter : Nat) (tol2 : Option K)
    (x : V) (reason : String) (tr : List (CGTrace V))
    (hrun : cgRun (modOps' B) (fun v => H v) b x0 maxIter tol2 = .ok x reason tr) :
    x = ((tr.map (·.x)).getLast?).getD (start' b x0) := by
  obtain ⟨x', reason', tr', h, h1, h2, h3, h4, h5, h6, h7⟩ :=
    cgRun_spec B H symm posB selfadj posH b x0 maxIter tol2
  rw [h] at hrun
  cases hrun
  exact h4

theorem cg_exact_stop (b : V) (x0 : Option V) (maxIter : Nat) (tol2 : Option K)
    (x : V) (reason : String) (tr : List (CGTrace V))
    (hrun : cgRun (modOps' B) (fun v => H v) b x0 maxIter tol2 = .ok x reason tr)
    (hreason : reason = "zero-residual" ∨ reason = "zero-initial-residual") : H x = b := by
  obtain ⟨x', reason', tr', h, h1, h2, h3, h4, h5, h6, h7⟩ :=
    cgRun_spec B H symm posB selfadj posH b x0 maxIter tol2
  rw [h] at hrun
  cases hrun
  exact h6 hreason

theorem cg_tolerance_stop (b : V) (x0 : Option V) (maxIter : Nat) (t : K)
    (x : V) (tr : List (CGTrace V))
    (hrun : cgRun (modOps' B) (fun v => H v) b x0 maxIter (some t) = .ok x "tolerance" tr) :
    B (b - H x) (b - H x) < t := by
  obtain ⟨x', reason', tr', h, h1, h2, h3, h4, h5, h6, h7⟩ :=
    cgRun_spec B H symm posB selfadj posH b x0 maxIter (some t)
  rw [h] at hrun
  cases hrun
  exact h7 t rfl rfl

theorem cg_error_monotone (b : V) (x0 : Option V) (maxIter : Nat) (tol2 : Option K)
    (x : V) (reason : String) (tr : List (CGTrace V)) (xs : V) (hxs : H xs = b)
    (hrun : cgRun (modOps' B) (fun v => H v) b x0 maxIter tol2 = .ok x reason tr) :
    List.IsChain (fun u v => B (xs - v) (H (xs - v)) ≤ B (xs - u) (H (xs - u))) (start' b x0 :: tr.map (·.x)) := by
  obtain ⟨x', reason', tr', h, h1, h2, h3, h4, h5, h6, h7⟩ :=
    cgRun_spec B H symm posB selfadj posH b x0 maxIter tol2
  rw [h] at hrun
  cases hrun
  exact h5 xs hxs

/- the HPD hypotheses are not needed here (a run that returned `.ok` is simulated step by step);
they stay in the signature because `Props/C06.lean` passes them -/
set_option linter.unusedSectionVars false in
theorem cg_homogeneous (b : V) (x0 : Option V) (maxIter : Nat) (c : K) (hc : c ≠ 0)
    (x : V) (reason : String) (tr : List (CGTrace V))
    (hrun : cgRun (modOps' B) (fun v => H v) b x0 maxIter none = .ok x reason tr) :
    ∃ tr', cgRun (modOps' B) (fun v => H v) (c • b) (x0.map (fun v => c • v)) maxIter none = .ok (c • x) reason tr'
      ∧ tr'.map (·.x) = tr.map (fun t => c • t.x) := by
  have hinit : cgInit (modOps' B) (fun v => H v) (c • b) (x0.map (fun v => c • v))
      = scSt c (cgInit (modOps' B) (fun v => H v) b x0) := by
    cases x0 <;> simp [cgInit, scSt, modOps', smul_sub]
  refine ⟨tr.map (scTr c), ?_, by simp [scTr, Function.comp_def]⟩
  have hB : B (scSt c (cgInit (modOps' B) (fun v => H v) b x0)).r
      (scSt c (cgInit (modOps' B) (fun v => H v) b x0)).r
      = c * c * B (cgInit (modOps' B) (fun v => H v) b x0).r (cgInit (modOps' B) (fun v => H v) b x0).r :=
    B_smul_smul B c _ _
  unfold cgRun at hrun ⊢
  simp only at hrun ⊢
  rw [hinit]
  by_cases hrr : B (cgInit (modOps' B) (fun v => H v) b x0).r (cgInit (modOps' B) (fun v => H v) b x0).r = 0
  · rw [show (modOps' B).dot = fun u v => B u v from rfl] at hrun ⊢
    simp only at hrun ⊢
    rw [if_pos hrr] at hrun
    rw [if_pos (by rw [hB, hrr, mul_zero])]
    cases hrun
    rfl
  · rw [show (modOps' B).dot = fun u v => B u v from rfl] at hrun ⊢
    simp only at hrun ⊢
    rw [if_neg hrr] at hrun
    rw [if_neg (by rw [hB]; exact mul_ne_zero (mul_ne_zero hc hc) hrr)]
    exact cgLoop_scale B H c hc _ _ _ [] _ _ _ hrun
end M
