import Mrpro.Gen.Src
import Mrpro.Lemmas.FunctionalL
import Mathlib.Tactic.Ring
import Mathlib.Tactic.FieldSimp

/-! The per-element proximal maps of `L1Norm` and `L2NormSquared` (and of their convex conjugates), translated from the Python
source on every run (`Mrpro/Gen/Src.lean`), are the model functions `l1ProxEl`, `l1ConjProxEl`, `l2ProxEl`, `l2ConjProxEl` of
`Mrpro/Model/Functional.lean` — for every ordered field, in particular ℝ — so the argmin and Moreau theorems of C08, which are about
the model functions, are re-proved against the formulas the code contains now. -/

namespace M.SrcL
open M M.Src
variable {K : Type} [Field K] [LinearOrder K] [IsStrictOrderedRing K]

theorem prox_l1_eq (w σ n t x : K) : prox_l1_prox x t w σ n = l1ProxEl w σ n t x := by
  first
    | rfl
    | (simp only [prox_l1_prox, l1ProxEl, softThr]; ring_nf)
    | (simp only [prox_l1_prox, l1ProxEl, softThr, absK_eq_abs]; ring_nf)

theorem prox_l1_conj_eq (w σ n t x : K) : prox_l1_prox_conj x σ t w n = l1ConjProxEl w σ n t x := by
  first
    | rfl
    | (simp only [prox_l1_prox_conj, l1ConjProxEl]; ring_nf)

theorem prox_l2_eq (w σ n t x : K) : prox_l2_prox w σ n x t = l2ProxEl w σ n t x := by
  first
    | rfl
    | (simp only [prox_l2_prox, l2ProxEl]; ring_nf)
    | (simp only [prox_l2_prox, l2ProxEl]; norm_num; ring_nf)

theorem prox_l2_conj_eq (w σ n t x : K) : prox_l2_prox_conj w n x σ t = l2ConjProxEl w σ n t x := by
  first
    | rfl
    | (simp only [prox_l2_prox_conj, l2ConjProxEl]; ring_nf)
    | (simp only [prox_l2_prox_conj, l2ConjProxEl]; norm_num; ring_nf)

theorem value_l1_eq (w t x : K) : prox_l1_value w x t = l1ValEl w t x := by
  first
    | rfl
    | (simp only [prox_l1_value, l1ValEl]; ring_nf)

theorem value_l2_eq (w t x : K) : prox_l2_value w x t = l2ValEl w t x := by
  first
    | rfl
    | (simp only [prox_l2_value, l2ValEl]; ring_nf)

end M.SrcL
