import Mrpro.Model.CG
import Mathlib.LinearAlgebra.BilinearMap
import Mathlib.LinearAlgebra.Matrix.NonsingularInverse
import Mathlib.LinearAlgebra.Matrix.ConjTranspose
import Mathlib.Algebra.Order.Field.Basic
import Mathlib.Tactic.Ring
import Mathlib.Tactic.FieldSimp
import Mathlib.Tactic.Linarith
/-! Proofs for `Mrpro/Props/C07.lean`. -/
namespace M
variable {K V : Type} [Field K] [LinearOrder K] [IsStrictOrderedRing K] [AddCommGroup V] [Module K V]

theorem normal_eq_minimiser (B : V →ₗ[K] V →ₗ[K] K) (H : V →ₗ[K] V)
    (symm : ∀ u v, B u v = B v u) (posB : ∀ v, v ≠ 0 → 0 < B v v)
    (selfadj : ∀ u v, B (H u) v = B u (H v)) (posH : ∀ v, v ≠ 0 → 0 < B v (H v)) (b x : V) :
    H x = b ↔ ∀ z, B x (H x) / 2 - B b x ≤ B z (H z) / 2 - B b z := by
  constructor
  · intro h z
    subst h
    have key : B z (H z) / 2 - B (H x) z - (B x (H x) / 2 - B (H x) x)
        = B (z - x) (H (z - x)) / 2 := by
      have h1 : B z (H x) = B (H x) z := symm _ _
      have h2 : B x (H z) = B (H x) z := (selfadj x z).symm
      have h3 : B x (H x) = B (H x) x := symm _ _
      simp only [map_sub, LinearMap.sub_apply]
      rw [h1, h2, ← h3]
      ring
    have hnn : 0 ≤ B (z - x) (H (z - x)) / 2 := by
      by_cases hd : z - x = 0
      · simp [hd]
      · exact le_of_lt (half_pos (posH _ hd))
    linarith
  · intro hmin
    by_contra hne
    obtain ⟨r, hrdef⟩ : ∃ r, r = b - H x := ⟨_, rfl⟩
    have hr : r ≠ 0 := by rw [hrdef]; exact sub_ne_zero.mpr (Ne.symm hne)
    have ha : 0 < B r r := posB r hr
    have hq : 0 < B r (H r) := posH r hr
    obtain ⟨a, hadef⟩ : ∃ a, a = B r r := ⟨_, rfl⟩
    obtain ⟨q, hqdef⟩ : ∃ q, q = B r (H r) := ⟨_, rfl⟩
    rw [← hadef] at ha
    rw [← hqdef] at hq
    have hexp : ∀ t : K, B (x + t • r) (H (x + t • r)) / 2 - B b (x + t • r)
        - (B x (H x) / 2 - B b x) = t * t * q / 2 - t * a := by
      intro t
      have h1 : B x (H r) = B r (H x) := by rw [← selfadj x r]; exact symm _ _
      have h2 : a = B b r - B r (H x) := by
        have e : B r r = B (b - H x) r := by rw [← hrdef]
        rw [hadef, e]
        simp only [map_sub, LinearMap.sub_apply]
        rw [symm (H x) r]
      simp only [map_add, map_smul, LinearMap.add_apply, LinearMap.smul_apply, smul_eq_mul]
      rw [h1, h2, hqdef]
      ring
    have h := hmin (x + (a / q) • r)
    have h' := hexp (a / q)
    have hval : a / q * (a / q) * q / 2 - a / q * a = - (a * a / (2 * q)) := by
      field_simp
      ring
    have hpos : 0 < a * a / (2 * q) := by positivity
    linarith

theorem prewhiten_unit_cov {n : Type} [Fintype n] [DecidableEq n] {F : Type} [Field F] [StarRing F]
    (L : Matrix n n F) (hL : IsUnit L.det) :
    L⁻¹ * (L * L.conjTranspose) * (L⁻¹).conjTranspose = 1 := by
  have hL' : IsUnit L.conjTranspose.det := by
    rw [Matrix.det_conjTranspose]; exact hL.star
  rw [Matrix.conjTranspose_nonsing_inv, ← Matrix.mul_assoc, Matrix.nonsing_inv_mul _ hL,
    Matrix.one_mul, Matrix.mul_nonsing_inv _ hL']

theorem whitened_noise_cov {n m : Type} [Fintype n] [Fintype m] [DecidableEq n] {F : Type} [Field F] [StarRing F]
    (L : Matrix n n F) (hL : IsUnit L.det) (X : Matrix n m F) (c : F) (hc : star c = c)
    (hN : c • (X * X.conjTranspose) = L * L.conjTranspose) :
    c • ((L⁻¹ * X) * (L⁻¹ * X).conjTranspose) = 1 := by
  have _ := hc
  rw [← prewhiten_unit_cov L hL, ← hN, Matrix.conjTranspose_mul, Matrix.mul_smul, Matrix.smul_mul]
  simp only [Matrix.mul_assoc]
end M
