import Mrpro.Gen.Src
import Mrpro.Model.Rotation
import Mathlib.Tactic.Ring

/-! The component formulas of `_compose_quaternions_single` and `_quaternion_to_matrix`, translated from the Python source on
every run (`Mrpro/Gen/Src.lean`), are the quaternion product `Q.mul` and the matrix `Q.toMat` of the hand-written model
(`Mrpro/Model/Rotation.lean`) over every commutative ring — so the group-law theorems of C13 and the conversion theorems of
C12, which are about `Q.mul` / `Q.toMat`, are re-proved against what the code says now. -/

namespace M.SrcL
open M M.Src

theorem rot_compose_eq {K : Type} [CommRing K] (p q : Q K) :
    rot_compose p.a p.b p.c p.w q.a q.b q.c q.w = Q.mul p q := by
  first
    | rfl
    | (simp only [rot_compose, Q.mul]; congr 1 <;> ring)

theorem rot_to_matrix_eq {K : Type} [CommRing K] (q : Q K) :
    rot_to_matrix q.a q.b q.c q.w = Q.toMat q := by
  first
    | rfl
    | (simp only [rot_to_matrix, Q.toMat, two]; congr 1 <;> ring)

/-- `Rotation.inv`: multiplying the stored quaternion with the sign vector of the source is the conjugate -/
theorem rot_inv_eq {K : Type} [CommRing K] (q : Q K) : rot_inv q.a q.b q.c q.w = Q.conj q := by
  first
    | rfl
    | (simp only [rot_inv, Q.conj]; congr 1 <;> ring)

end M.SrcL
