import Mrpro.Gen.Src
import Mrpro.Model.Rotation
import Mathlib.Algebra.Order.Field.Basic
import Mathlib.Tactic.Linarith

/-! `_canonical_quaternion`: the sign rule translated from the source on every run (`M.Src.rot_needs_inversion`) is the rule of the
model (`M.needsInversion 2 1 0`, the index map being `AXIS_ORDER = 'zyx'` as read from the source), for every scalar type with `<` and
`==` (so also at `Float`, where the driver executes it); over an ordered field the canonical form has non-negative scalar part, is `q` or
`−q`, and is the *same* representative for `q` and `−q` (the `q ~ −q` ambiguity of the property is resolved consistently). -/

namespace M.SrcL
open M M.Src

theorem rot_needs_inversion_eq {K : Type} [LT K] [DecidableLT K] [BEq K] [OfNat K 0] [Neg K] (q : Q K) :
    rot_needs_inversion q.a q.b q.c q.w = needsInversion 2 1 0 q := by
  first
    | rfl
    | simp [rot_needs_inversion, needsInversion]

section Ordered
variable {K : Type} [Field K] [LinearOrder K] [IsStrictOrderedRing K]

theorem canonical_cases (q : Q K) : canonicalG 2 1 0 q = q ∨ canonicalG 2 1 0 q = q.neg := by
  unfold canonicalG; split <;> simp

theorem canonical_w_nonneg (q : Q K) : 0 ≤ (canonicalG 2 1 0 q).w := by
  unfold canonicalG
  split
  · rename_i h
    simp only [needsInversion, Bool.or_eq_true, Bool.and_eq_true, decide_eq_true_eq, beq_iff_eq] at h
    simp only [Q.neg]
    rcases h with h | ⟨h, _⟩
    · linarith
    · simp [h]
  · rename_i h
    simp only [needsInversion, Bool.or_eq_true, Bool.and_eq_true, decide_eq_true_eq, beq_iff_eq, not_or] at h
    exact not_lt.mp h.1

theorem needsInversion_neg (q : Q K) (hq : q.a ≠ 0 ∨ q.b ≠ 0 ∨ q.c ≠ 0 ∨ q.w ≠ 0) :
    needsInversion 2 1 0 q.neg = !needsInversion 2 1 0 q := by
  obtain ⟨a, b, c, w⟩ := q
  simp only [needsInversion, Q.neg] at *
  rcases lt_trichotomy w 0 with hw | hw | hw <;> rcases lt_trichotomy c 0 with hc | hc | hc <;>
    rcases lt_trichotomy b 0 with hb | hb | hb <;> rcases lt_trichotomy a 0 with ha | ha | ha <;>
    (try simp_all [not_lt_of_gt, le_of_lt, neg_neg_iff_pos, neg_pos]) <;> (try (intros; first | linarith | (exfalso; linarith))) <;> (try (intro h; intros; first | (rw [h] at *; simp_all) | linarith)) <;> (try (by_contra hcon; simp only [not_or, not_not] at hcon; obtain ⟨h1, h2⟩ := hcon; first | (rw [h1] at *; simp_all) | (rw [h2] at *; simp_all) | (obtain ⟨h2, h3⟩ := h2; first | (rw [h2] at *; simp_all) | (rw [h3] at *; simp_all))))

theorem canonical_neg (q : Q K) (hq : q.a ≠ 0 ∨ q.b ≠ 0 ∨ q.c ≠ 0 ∨ q.w ≠ 0) :
    canonicalG 2 1 0 q.neg = canonicalG 2 1 0 q := by
  unfold canonicalG
  rw [needsInversion_neg q hq]
  cases needsInversion 2 1 0 q <;> simp [Q.neg]

end Ordered
end M.SrcL
