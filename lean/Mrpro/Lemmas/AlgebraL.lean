import Mrpro.Model.Algebra
import Mrpro.Model.Ops
import Mrpro.Lemmas.Basic
import Mrpro.Lemmas.Adjoint
import Mrpro.Lemmas.Linear
/-! Proofs for `Mrpro/Props/C04.lean`. -/
namespace M
open Finset
variable {K : Type} [CommRing K] [StarRing K] [DecidableEq K]

set_option linter.unusedSectionVars false

/-! ### consequences of `IsLin'` -/

theorem lin_ext {f : (Nat → K) → (Nat → K)} (h : IsLin' f) (a b : K) (x y : Nat → K) :
    f (fun t => a * x t + b * y t) = fun i => a * f x i + b * f y i := funext (h a b x y)

theorem lin_zero {f : (Nat → K) → (Nat → K)} (h : IsLin' f) : f (fun _ => 0) = fun _ => 0 :=
  funext (linear_zero f h)

theorem lin_smul {f : (Nat → K) → (Nat → K)} (h : IsLin' f) (c : K) (x : Nat → K) :
    f (fun t => c * x t) = fun i => c * f x i := by
  funext i
  have := h c 0 x x i
  simpa using this

/-! ### scalars -/

@[simp] theorem Scal.at_py (c : K) (i : Nat) : (Scal.py c).at i = c := rfl
@[simp] theorem Scal.at_t1 (c : K) (i : Nat) : (Scal.t1 c).at i = c := rfl
@[simp] theorem Scal.at_tn (d : Nat → K) (i : Nat) : (Scal.tn d).at i = d i := rfl
theorem Scal.at_conj (c : Scal K) (i : Nat) : c.conj.at i = star (c.at i) := by
  cases c <;> rfl
theorem Scal.at_normSq (c : Scal K) (i : Nat) : c.normSq.at i = star (c.at i) * c.at i := by
  cases c <;> rfl

/-! ### every object of the graph is linear (both code paths) -/
section ObjLin
variable (Lf La : Nat → (Nat → K) → (Nat → K))
    (hf : ∀ i, IsLin' (Lf i)) (ha : ∀ i, IsLin' (La i))
include hf ha

mutual
theorem Obj.fwd_lin : ∀ o : Obj K, IsLin' (Obj.fwd Lf La o)
  | .leaf i => by simpa [Obj.fwd] using hf i
  | .identity => by intro a b x y i; simp [Obj.fwd]
  | .zeroOp => by intro a b x y i; simp [Obj.fwd]
  | .composition p q => by
      intro a b x y i
      simp only [Obj.fwd]
      rw [lin_ext (Obj.fwd_lin q) a b x y]
      exact Obj.fwd_lin p a b _ _ i
  | .sum l => by
      intro a b x y i
      simp only [Obj.fwd]
      exact Obj.fwdSum_lin l a b x y i
  | .prodRight p c => by
      intro a b x y i
      simp only [Obj.fwd]
      rw [Obj.fwd_lin p a b x y i]; ring
  | .prodLeft p c => by
      intro a b x y i
      simp only [Obj.fwd]
      have : (fun i => c.at i * (a * x i + b * y i))
          = fun t => a * (c.at t * x t) + b * (c.at t * y t) := by
        funext t; ring
      rw [this]
      exact Obj.fwd_lin p a b _ _ i
  | .adjointOf p => by
      intro a b x y i
      simp only [Obj.fwd]
      exact Obj.adj_lin p a b x y i
theorem Obj.fwdSum_lin : ∀ l : List (Obj K), IsLin' (Obj.fwdSum Lf La l)
  | [] => by intro a b x y i; simp [Obj.fwdSum]
  | o :: os => by
      intro a b x y i
      simp only [Obj.fwdSum]
      rw [Obj.fwd_lin o a b x y i, Obj.fwdSum_lin os a b x y i]; ring
theorem Obj.adj_lin : ∀ o : Obj K, IsLin' (Obj.adj Lf La o)
  | .leaf i => by simpa [Obj.adj] using ha i
  | .identity => by intro a b x y i; simp [Obj.adj]
  | .zeroOp => by intro a b x y i; simp [Obj.adj]
  | .composition p q => by
      intro a b x y i
      simp only [Obj.adj]
      rw [lin_ext (Obj.adj_lin p) a b x y]
      exact Obj.adj_lin q a b _ _ i
  | .sum l => by
      intro a b x y i
      simp only [Obj.adj]
      exact Obj.adjSum_lin l a b x y i
  | .prodRight p c => by
      intro a b x y i
      simp only [Obj.adj]
      have : (fun i => (a * x i + b * y i) * conj (c.at i))
          = fun t => a * (x t * conj (c.at t)) + b * (y t * conj (c.at t)) := by
        funext t; ring
      rw [this]
      exact Obj.adj_lin p a b _ _ i
  | .prodLeft p c => by
      intro a b x y i
      simp only [Obj.adj]
      rw [Obj.adj_lin p a b x y i]; ring
  | .adjointOf p => by
      intro a b x y i
      simp only [Obj.adj]
      exact Obj.fwd_lin p a b x y i
theorem Obj.adjSum_lin : ∀ l : List (Obj K), IsLin' (Obj.adjSum Lf La l)
  | [] => by intro a b x y i; simp [Obj.adjSum]
  | o :: os => by
      intro a b x y i
      simp only [Obj.adjSum]
      rw [Obj.adj_lin o a b x y i, Obj.adjSum_lin os a b x y i]; ring
end
end ObjLin

/-! ### the smart constructors -/
section Smart
variable (Lf La : Nat → (Nat → K) → (Nat → K))

theorem fwd_matmul (hf : ∀ i, IsLin' (Lf i)) (ha : ∀ i, IsLin' (La i)) (a b : Obj K) (x : Nat → K) :
    Obj.fwd Lf La (Obj.matmul a b) x = Obj.fwd Lf La a (Obj.fwd Lf La b x) := by
  have hz : ∀ o : Obj K, Obj.fwd Lf La o (fun _ => 0) = fun _ => 0 :=
    fun o => lin_zero (Obj.fwd_lin Lf La hf ha o)
  unfold Obj.matmul; split <;> simp [Obj.fwd, hz]
theorem adj_matmul (hf : ∀ i, IsLin' (Lf i)) (ha : ∀ i, IsLin' (La i)) (a b : Obj K) (y : Nat → K) :
    Obj.adj Lf La (Obj.matmul a b) y = Obj.adj Lf La b (Obj.adj Lf La a y) := by
  have hz : ∀ o : Obj K, Obj.adj Lf La o (fun _ => 0) = fun _ => 0 :=
    fun o => lin_zero (Obj.adj_lin Lf La hf ha o)
  unfold Obj.matmul; split <;> simp [Obj.adj, hz]

theorem fwd_H (a : Obj K) (x : Nat → K) : Obj.fwd Lf La (Obj.H a) x = Obj.adj Lf La a x := by
  unfold Obj.H; split <;> simp [Obj.fwd, Obj.adj]
theorem adj_H (a : Obj K) (y : Nat → K) : Obj.adj Lf La (Obj.H a) y = Obj.fwd Lf La a y := by
  unfold Obj.H; split <;> simp [Obj.fwd, Obj.adj]

theorem fwdSum_append (l₁ l₂ : List (Obj K)) (x : Nat → K) (i : Nat) :
    Obj.fwdSum Lf La (l₁ ++ l₂) x i = Obj.fwdSum Lf La l₁ x i + Obj.fwdSum Lf La l₂ x i := by
  induction l₁ with
  | nil => simp [Obj.fwdSum]
  | cons o os ih => simp [Obj.fwdSum, ih, add_assoc]
theorem adjSum_append (l₁ l₂ : List (Obj K)) (x : Nat → K) (i : Nat) :
    Obj.adjSum Lf La (l₁ ++ l₂) x i = Obj.adjSum Lf La l₁ x i + Obj.adjSum Lf La l₂ x i := by
  induction l₁ with
  | nil => simp [Obj.adjSum]
  | cons o os ih => simp [Obj.adjSum, ih, add_assoc]

/-- the flattening step of `OperatorSum.__init__` -/
def Obj.fl (o : Obj K) : List (Obj K) := match o with | .sum l => l | o => [o]
theorem mkSum_eq (a b : Obj K) : Obj.mkSum a b = .sum (Obj.fl a ++ Obj.fl b) := rfl
theorem fwdSum_fl (o : Obj K) (x : Nat → K) (i : Nat) :
    Obj.fwdSum Lf La (Obj.fl o) x i = Obj.fwd Lf La o x i := by
  unfold Obj.fl; split <;> simp [Obj.fwd, Obj.fwdSum]
theorem adjSum_fl (o : Obj K) (x : Nat → K) (i : Nat) :
    Obj.adjSum Lf La (Obj.fl o) x i = Obj.adj Lf La o x i := by
  unfold Obj.fl; split <;> simp [Obj.adj, Obj.adjSum]
theorem fwd_mkSum (a b : Obj K) (x : Nat → K) (i : Nat) :
    Obj.fwd Lf La (Obj.mkSum a b) x i = Obj.fwd Lf La a x i + Obj.fwd Lf La b x i := by
  rw [mkSum_eq, Obj.fwd, fwdSum_append, fwdSum_fl, fwdSum_fl]
theorem adj_mkSum (a b : Obj K) (x : Nat → K) (i : Nat) :
    Obj.adj Lf La (Obj.mkSum a b) x i = Obj.adj Lf La a x i + Obj.adj Lf La b x i := by
  rw [mkSum_eq, Obj.adj, adjSum_append, adjSum_fl, adjSum_fl]

theorem fwd_plus (a b : Obj K) (x : Nat → K) (i : Nat) :
    Obj.fwd Lf La (Obj.plus a b) x i = Obj.fwd Lf La a x i + Obj.fwd Lf La b x i := by
  unfold Obj.plus; split <;> simp [Obj.fwd, fwd_mkSum]
theorem adj_plus (a b : Obj K) (x : Nat → K) (i : Nat) :
    Obj.adj Lf La (Obj.plus a b) x i = Obj.adj Lf La a x i + Obj.adj Lf La b x i := by
  unfold Obj.plus; split <;> simp [Obj.adj, adj_mkSum]

/-- `__rmul__` for an operator that is not `ZeroOp` -/
def Obj.rmul0 (c : Scal K) (a : Obj K) : Obj K :=
  match c with
  | .py v => if v = 0 then .zeroOp else if v = 1 then a else .prodRight a c
  | _ => .prodRight a c
/-- `__mul__` for an operator that is not `ZeroOp` -/
def Obj.mul0 (a : Obj K) (c : Scal K) : Obj K :=
  match c with
  | .py v => if v = 0 then .zeroOp else if v = 1 then a else .prodLeft a c
  | _ => .prodLeft a c
theorem rmul_zeroOp (c : Scal K) : Obj.rmul c (.zeroOp : Obj K) = .zeroOp := by
  simp [Obj.rmul]
theorem mul_zeroOp (c : Scal K) : Obj.mul (.zeroOp : Obj K) c = .zeroOp := by
  simp [Obj.mul]
theorem rmul_of_ne (c : Scal K) (a : Obj K) (h : a ≠ .zeroOp) : Obj.rmul c a = Obj.rmul0 c a := by
  unfold Obj.rmul Obj.rmul0
  split
  · exact absurd rfl h
  · rfl
theorem mul_of_ne (a : Obj K) (c : Scal K) (h : a ≠ .zeroOp) : Obj.mul a c = Obj.mul0 a c := by
  unfold Obj.mul Obj.mul0
  split
  · exact absurd rfl h
  · rfl

theorem fwd_rmul0 (c : Scal K) (a : Obj K) (x : Nat → K) (i : Nat) :
    Obj.fwd Lf La (Obj.rmul0 c a) x i = c.at i * Obj.fwd Lf La a x i := by
  cases c with
  | py v =>
    unfold Obj.rmul0
    simp only
    split_ifs with h0 h1
    · simp [Obj.fwd, h0]
    · simp [h1]
    · simp [Obj.fwd]
  | t1 v => simp [Obj.rmul0, Obj.fwd]
  | tn d => simp [Obj.rmul0, Obj.fwd]

theorem adj_mul_pt0 (a : Obj K) (c : Scal K) (y : Nat → K) (i : Nat) :
    Obj.adj Lf La (Obj.mul0 a c) y i = star (c.at i) * Obj.adj Lf La a y i := by
  cases c with
  | py v =>
    unfold Obj.mul0
    simp only
    split_ifs with h0 h1
    · simp [Obj.adj, h0]
    · simp [h1]
    · simp [Obj.adj, mul_comm]
  | t1 v => simp [Obj.mul0, Obj.adj, mul_comm]
  | tn d => simp [Obj.mul0, Obj.adj, mul_comm]

theorem fwd_rmul (c : Scal K) (a : Obj K) (x : Nat → K) (i : Nat) :
    Obj.fwd Lf La (Obj.rmul c a) x i = c.at i * Obj.fwd Lf La a x i := by
  by_cases h : a = .zeroOp
  · subst h; simp [rmul_zeroOp, Obj.fwd]
  · rw [rmul_of_ne c a h, fwd_rmul0]
theorem adj_mul_pt (a : Obj K) (c : Scal K) (y : Nat → K) (i : Nat) :
    Obj.adj Lf La (Obj.mul a c) y i = star (c.at i) * Obj.adj Lf La a y i := by
  by_cases h : a = .zeroOp
  · subst h; simp [mul_zeroOp, Obj.adj]
  · rw [mul_of_ne a c h, adj_mul_pt0]

theorem fwd_rmul_fn (c : Scal K) (a : Obj K) (x : Nat → K) :
    Obj.fwd Lf La (Obj.rmul c a) x = fun i => c.at i * Obj.fwd Lf La a x i :=
  funext (fwd_rmul Lf La c a x)
theorem adj_mul_fn (a : Obj K) (c : Scal K) (y : Nat → K) :
    Obj.adj Lf La (Obj.mul a c) y = fun i => star (c.at i) * Obj.adj Lf La a y i :=
  funext (adj_mul_pt Lf La a c y)

variable (hf : ∀ i, IsLin' (Lf i)) (ha : ∀ i, IsLin' (La i))
include hf ha

theorem adj_rmul0 (c : Scal K) (a : Obj K) (y : Nat → K) :
    Obj.adj Lf La (Obj.rmul0 c a) y = Obj.adj Lf La a (fun i => star (c.at i) * y i) := by
  have comm : ∀ s : Scal K, (fun i => y i * conj (s.at i)) = fun i => star (s.at i) * y i := by
    intro s; funext i; simp [mul_comm]
  cases c with
  | py v =>
    unfold Obj.rmul0
    simp only
    split_ifs with h0 h1
    · simp [Obj.adj, h0, lin_zero (Obj.adj_lin Lf La hf ha a)]
    · simp [h1]
    · simp only [Obj.adj, comm]
  | t1 v => simp only [Obj.rmul0, Obj.adj, comm]
  | tn d => simp only [Obj.rmul0, Obj.adj, comm]

theorem fwd_mul0 (a : Obj K) (c : Scal K) (x : Nat → K) :
    Obj.fwd Lf La (Obj.mul0 a c) x = Obj.fwd Lf La a (fun i => c.at i * x i) := by
  cases c with
  | py v =>
    unfold Obj.mul0
    simp only
    split_ifs with h0 h1
    · simp [Obj.fwd, h0, lin_zero (Obj.fwd_lin Lf La hf ha a)]
    · simp [h1]
    · simp only [Obj.fwd]
  | t1 v => simp only [Obj.mul0, Obj.fwd]
  | tn d => simp only [Obj.mul0, Obj.fwd]

theorem adj_rmul (c : Scal K) (a : Obj K) (y : Nat → K) :
    Obj.adj Lf La (Obj.rmul c a) y = Obj.adj Lf La a (fun i => star (c.at i) * y i) := by
  by_cases h : a = .zeroOp
  · subst h; simp [rmul_zeroOp, Obj.adj]
  · rw [rmul_of_ne c a h, adj_rmul0 Lf La hf ha]
theorem fwd_mul (a : Obj K) (c : Scal K) (x : Nat → K) :
    Obj.fwd Lf La (Obj.mul a c) x = Obj.fwd Lf La a (fun i => c.at i * x i) := by
  by_cases h : a = .zeroOp
  · subst h; simp [mul_zeroOp, Obj.fwd]
  · rw [mul_of_ne a c h, fwd_mul0 Lf La hf ha]

theorem fwd_plusT (a : Obj K) (d : Scal K) (x : Nat → K) (i : Nat) :
    Obj.fwd Lf La (Obj.plusT a d) x i = Obj.fwd Lf La a x i + d.at i * x i := by
  unfold Obj.plusT
  rw [fwd_mkSum, fwd_mul Lf La hf ha]
  simp [Obj.fwd]
theorem adj_plusT (a : Obj K) (d : Scal K) (y : Nat → K) (i : Nat) :
    Obj.adj Lf La (Obj.plusT a d) y i = Obj.adj Lf La a y i + star (d.at i) * y i := by
  unfold Obj.plusT
  rw [adj_mkSum, adj_mul_pt]
  simp [Obj.adj]


theorem gram_spec : ∀ (o : Obj K) (x : Nat → K),
    Obj.fwd Lf La (Obj.gram o) x = Obj.adj Lf La o (Obj.fwd Lf La o x) ∧
    Obj.adj Lf La (Obj.gram o) x = Obj.adj Lf La o (Obj.fwd Lf La o x)
  | .composition p q, x => by
      have ihp := gram_spec p
      simp only [Obj.gram, fwd_matmul Lf La hf ha, adj_matmul Lf La hf ha, fwd_H, adj_H, Obj.fwd, Obj.adj, ihp, and_self]
  | .prodRight p c, x => by
      have ihp := gram_spec p
      have hsA := lin_smul (Obj.adj_lin Lf La hf ha p)
      have hsF := lin_smul (Obj.fwd_lin Lf La hf ha p)
      cases c with
      | tn d =>
        simp only [Obj.gram, fwd_matmul Lf La hf ha, adj_matmul Lf La hf ha, fwd_H, adj_H, Obj.fwd, Obj.adj,
          adj_rmul Lf La hf ha, fwd_rmul_fn, Scal.at_normSq, Scal.at_tn, conj_eq_star, star_mul',
          star_star]
        constructor <;> (congr 1; funext i; ring)
      | py v =>
        have e : ∀ z : Nat → K, (fun i => v * z i * star v) = fun i => (star v * v) * z i := by
          intro z; funext i; ring
        simp only [Obj.gram, Obj.fwd, Obj.adj, adj_rmul Lf La hf ha, fwd_rmul_fn, Scal.at_normSq,
          Scal.at_py, conj_eq_star, star_mul', star_star, ihp, e, hsA, hsF]
        refine ⟨trivial, ?_⟩
        funext i; ring
      | t1 v =>
        have e : ∀ z : Nat → K, (fun i => v * z i * star v) = fun i => (star v * v) * z i := by
          intro z; funext i; ring
        simp only [Obj.gram, Obj.fwd, Obj.adj, adj_rmul Lf La hf ha, fwd_rmul_fn, Scal.at_normSq,
          Scal.at_t1, conj_eq_star, star_mul', star_star, ihp, e, hsA, hsF]
        refine ⟨trivial, ?_⟩
        funext i; ring
  | .prodLeft p c, x => by
      have ihp := gram_spec p
      simp only [Obj.gram, Obj.fwd, Obj.adj, fwd_mul Lf La hf ha, adj_mul_fn, fwd_rmul_fn,
        adj_rmul Lf La hf ha, conj_eq_star, Scal.at_conj, star_star, ihp]
      constructor <;> (funext i; ring)
  | .leaf j, x => by simp only [Obj.gram, fwd_matmul Lf La hf ha, adj_matmul Lf La hf ha, fwd_H, adj_H, and_self]
  | .identity, x => by simp only [Obj.gram, fwd_matmul Lf La hf ha, adj_matmul Lf La hf ha, fwd_H, adj_H, and_self]
  | .zeroOp, x => by simp only [Obj.gram, fwd_matmul Lf La hf ha, adj_matmul Lf La hf ha, fwd_H, adj_H, and_self]
  | .sum l, x => by simp only [Obj.gram, fwd_matmul Lf La hf ha, adj_matmul Lf La hf ha, fwd_H, adj_H, and_self]
  | .adjointOf p, x => by simp only [Obj.gram, fwd_matmul Lf La hf ha, adj_matmul Lf La hf ha, fwd_H, adj_H, and_self]

theorem build_spec (e : Expr K) :
    (∀ x, Obj.fwd Lf La (build e) x = den Lf La e x) ∧
    (∀ y, Obj.adj Lf La (build e) y = denH Lf La e y) := by
  induction e with
  | leaf i => simp [build, Obj.fwd, Obj.adj, den, denH]
  | ident => simp [build, Obj.fwd, Obj.adj, den, denH]
  | zero => simp [build, Obj.fwd, Obj.adj, den, denH]
  | comp a b iha ihb => simp [build, den, denH, fwd_matmul Lf La hf ha, adj_matmul Lf La hf ha, iha, ihb]
  | add a b iha ihb =>
    constructor
    · intro x; funext i; simp [build, den, fwd_plus, iha, ihb]
    · intro x; funext i; simp [build, denH, adj_plus, iha, ihb]
  | addT a d iha =>
    constructor
    · intro x; funext i; simp [build, den, fwd_plusT Lf La hf ha, iha]
    · intro x; funext i; simp [build, denH, adj_plusT Lf La hf ha, iha]
  | rmul c a iha =>
    constructor
    · intro x; funext i; simp [build, den, fwd_rmul, iha]
    · intro x; simp [build, denH, adj_rmul Lf La hf ha, iha]
  | mul a c iha =>
    constructor
    · intro x; simp [build, den, fwd_mul Lf La hf ha, iha]
    · intro x; funext i; simp [build, denH, adj_mul_pt, iha]
  | adj a iha => simp [build, den, denH, fwd_H, adj_H, iha]
  | gram a iha =>
    constructor
    · intro x; rw [build, (gram_spec Lf La hf ha _ x).1, iha.1, iha.2, den]
    · intro x; rw [build, (gram_spec Lf La hf ha _ x).2, iha.1, iha.2, denH]

end Smart

theorem fwd_build_eq_den (Lf La : Nat → (Nat → K) → (Nat → K))
    (hf : ∀ i, IsLin' (Lf i)) (ha : ∀ i, IsLin' (La i)) (e : Expr K) (x : Nat → K) :
    Obj.fwd Lf La (build e) x = den Lf La e x := (build_spec Lf La hf ha e).1 x

theorem adj_build_eq_denH (Lf La : Nat → (Nat → K) → (Nat → K))
    (hf : ∀ i, IsLin' (Lf i)) (ha : ∀ i, IsLin' (La i)) (e : Expr K) (y : Nat → K) :
    Obj.adj Lf La (build e) y = denH Lf La e y := (build_spec Lf La hf ha e).2 y

/-! ### the inner product -/

theorem inner_conj_symm (n : Nat) (u v : Nat → K) : inner n u v = star (inner n v u) := by
  simp only [inner_eq, star_sum, star_mul', star_star]
  exact Finset.sum_congr rfl (fun i _ => mul_comm _ _)
theorem inner_add_left (n : Nat) (u v y : Nat → K) :
    inner n (fun i => u i + v i) y = inner n u y + inner n v y := by
  simp only [inner_eq, star_add, add_mul, Finset.sum_add_distrib]
theorem inner_add_right (n : Nat) (x u v : Nat → K) :
    inner n x (fun i => u i + v i) = inner n x u + inner n x v := by
  simp only [inner_eq, mul_add, Finset.sum_add_distrib]
theorem inner_diag (n : Nat) (d z y : Nat → K) :
    inner n (fun i => d i * z i) y = inner n z (fun i => star (d i) * y i) := by
  simp only [inner_eq, star_mul']
  exact Finset.sum_congr rfl (fun i _ => by ring)
theorem inner_diag' (n : Nat) (d z y : Nat → K) :
    inner n (fun i => star (d i) * z i) y = inner n z (fun i => d i * y i) := by
  rw [inner_diag]; simp only [star_star]
theorem inner_zero_left (n : Nat) (y : Nat → K) : inner n (fun _ => (0:K)) y = 0 := by
  simp [inner_eq]
theorem inner_zero_right (n : Nat) (x : Nat → K) : inner n x (fun _ => (0:K)) = 0 := by
  simp [inner_eq]

theorem den_adjoint_both (n : Nat) (Lf La : Nat → (Nat → K) → (Nat → K))
    (hadj : ∀ i x y, inner n (Lf i x) y = inner n x (La i y)) (e : Expr K) :
    (∀ x y, inner n (den Lf La e x) y = inner n x (denH Lf La e y)) ∧
    (∀ x y, inner n (denH Lf La e x) y = inner n x (den Lf La e y)) := by
  induction e with
  | leaf i =>
    refine ⟨fun x y => by simpa [den, denH] using hadj i x y, fun x y => ?_⟩
    simp only [den, denH]
    rw [inner_conj_symm, ← hadj, ← inner_conj_symm]
  | ident => simp [den, denH]
  | zero => simp [den, denH, inner_zero_left, inner_zero_right]
  | comp a b iha ihb =>
    constructor
    · intro x y; simp only [den, denH]; rw [iha.1, ihb.1]
    · intro x y; simp only [den, denH]; rw [ihb.2, iha.2]
  | add a b iha ihb =>
    constructor
    · intro x y; simp only [den, denH]; rw [inner_add_left, inner_add_right, iha.1, ihb.1]
    · intro x y; simp only [den, denH]; rw [inner_add_left, inner_add_right, iha.2, ihb.2]
  | addT a d iha =>
    constructor
    · intro x y; simp only [den, denH, conj_eq_star]
      rw [inner_add_left, inner_add_right, iha.1, inner_diag]
    · intro x y; simp only [den, denH, conj_eq_star]
      rw [inner_add_left, inner_add_right, iha.2, inner_diag']
  | rmul c a iha =>
    constructor
    · intro x y; simp only [den, denH, conj_eq_star]; rw [inner_diag, iha.1]
    · intro x y; simp only [den, denH, conj_eq_star]; rw [iha.2, inner_diag']
  | mul a c iha =>
    constructor
    · intro x y; simp only [den, denH, conj_eq_star]; rw [iha.1, inner_diag]
    · intro x y; simp only [den, denH, conj_eq_star]; rw [inner_diag', iha.2]
  | adj a iha => exact ⟨fun x y => by simpa [den, denH] using iha.2 x y,
                        fun x y => by simpa [den, denH] using iha.1 x y⟩
  | gram a iha =>
    constructor
    · intro x y; simp only [den, denH]; rw [iha.2, iha.1]
    · intro x y; simp only [den, denH]; rw [iha.2, iha.1]

theorem den_adjoint (n : Nat) (Lf La : Nat → (Nat → K) → (Nat → K))
    (hadj : ∀ i x y, inner n (Lf i x) y = inner n x (La i y)) (e : Expr K) (x y : Nat → K) :
    inner n (den Lf La e x) y = inner n x (denH Lf La e y) :=
  (den_adjoint_both n Lf La hadj e).1 x y

theorem diag_pre_linear (d : Nat → K) (f : (Nat → K) → (Nat → K)) (hf : IsLin' f) :
    IsLin' (fun x => f (fun i => d i * x i)) :=
  comp_linear f (fun x i => d i * x i) hf (fun a b x y i => by ring)
theorem diag_post_linear (d : Nat → K) (f : (Nat → K) → (Nat → K)) (hf : IsLin' f) :
    IsLin' (fun x i => d i * f x i) := by
  intro a b x y i
  simp only [hf a b x y i]; ring

theorem den_linear (Lf La : Nat → (Nat → K) → (Nat → K))
    (hf : ∀ i, IsLin' (Lf i)) (ha : ∀ i, IsLin' (La i)) (e : Expr K) :
    IsLin' (den Lf La e) ∧ IsLin' (denH Lf La e) := by
  induction e with
  | leaf i => exact ⟨by simpa [den] using hf i, by simpa [denH] using ha i⟩
  | ident => constructor <;> (intro a b x y i; simp [den, denH])
  | zero => constructor <;> (intro a b x y i; simp [den, denH])
  | comp a b iha ihb =>
    exact ⟨by simpa [den] using comp_linear _ _ iha.1 ihb.1,
           by simpa [denH] using comp_linear _ _ ihb.2 iha.2⟩
  | add a b iha ihb =>
    exact ⟨by simpa [den] using add_linear _ _ iha.1 ihb.1,
           by simpa [denH] using add_linear _ _ iha.2 ihb.2⟩
  | addT a d iha =>
    constructor
    · intro p q x y i; simp only [den]; rw [iha.1 p q x y i]; ring
    · intro p q x y i; simp only [denH]; rw [iha.2 p q x y i]; ring
  | rmul c a iha =>
    exact ⟨by simpa [den] using diag_post_linear (fun i => c.at i) _ iha.1,
           by simpa [denH] using diag_pre_linear (fun i => star (c.at i)) _ iha.2⟩
  | mul a c iha =>
    exact ⟨by simpa [den] using diag_pre_linear (fun i => c.at i) _ iha.1,
           by simpa [denH] using diag_post_linear (fun i => star (c.at i)) _ iha.2⟩
  | adj a iha => exact ⟨by simpa [den] using iha.2, by simpa [denH] using iha.1⟩
  | gram a iha =>
    exact ⟨by simpa [den] using comp_linear _ _ iha.2 iha.1,
           by simpa [denH] using comp_linear _ _ iha.2 iha.1⟩

theorem matVec_leaves (n : Nat) (A : Nat → Nat → K) :
    (∀ i, IsLin' (fun x => matVec n (A i) x)) ∧ (∀ i, IsLin' (fun y => matVecH n n (A i) y)) ∧
    (∀ i x y, inner n (matVec n (A i) x) y = inner n x (matVecH n n (A i) y)) :=
  ⟨fun i => matVec_linear n (A i), fun i => matVecH_linear n n (A i),
   fun i x y => matVec_adjoint n n (A i) x y⟩
end M
