import Mrpro.Model.Load
import Mrpro.Gen.Src
import Mathlib.Tactic.Ring
import Mathlib.Tactic.Linarith
import Mathlib.Tactic.FieldSimp
import Mathlib.Tactic.Positivity
import Mathlib.Algebra.Order.Field.Basic
import Mathlib.Algebra.Order.Field.Rat
import Mathlib.Algebra.Order.Ring.Rat
import Mathlib.Algebra.Order.Ring.Abs
import Mathlib.Data.Rat.Defs
import Mathlib.Data.Rat.Cast.Order
/-! Proofs about `KTrajectoryPulseq` rescaling (`pulseqAxis`). -/
namespace M

theorem absR_eq_abs (x : Rat) : absR x = |x| := by
  unfold absR
  split_ifs with h
  · exact (abs_of_neg h).symm
  · exact (abs_of_nonneg (not_lt.mp h)).symm

theorem maxR_eq_max (a b : Rat) : maxR a b = max a b := by
  unfold maxR
  split_ifs with h
  · exact (max_eq_right h).symm
  · exact (max_eq_left (le_of_lt (not_le.mp h))).symm

theorem absR_nonneg (x : Rat) : 0 ≤ absR x := by
  rw [absR_eq_abs]; exact abs_nonneg x

/-- the fold underlying `maxAbs`, with an arbitrary start value -/
def maxAbsFrom (m0 : Rat) (k : List Rat) : Rat := k.foldl (fun m x => maxR m (absR x)) m0

theorem maxAbs_eq_from (k : List Rat) : maxAbs k = maxAbsFrom 0 k := rfl

@[simp] theorem maxAbsFrom_nil (m0 : Rat) : maxAbsFrom m0 [] = m0 := rfl

@[simp] theorem maxAbsFrom_cons (m0 x : Rat) (k : List Rat) :
    maxAbsFrom m0 (x :: k) = maxAbsFrom (max m0 (absR x)) k := by
  unfold maxAbsFrom
  rw [List.foldl_cons, maxR_eq_max]

theorem le_maxAbsFrom (k : List Rat) : ∀ m0 : Rat, m0 ≤ maxAbsFrom m0 k := by
  induction k with
  | nil => intro m0; simp
  | cons x k ih =>
    intro m0
    rw [maxAbsFrom_cons]
    exact le_trans (le_max_left _ _) (ih _)

theorem absR_le_maxAbsFrom (k : List Rat) : ∀ (m0 x : Rat), x ∈ k → absR x ≤ maxAbsFrom m0 k := by
  induction k with
  | nil => intro m0 x h; cases h
  | cons y k ih =>
    intro m0 x h
    rw [maxAbsFrom_cons]
    rcases List.mem_cons.mp h with h | h
    · subst h
      exact le_trans (le_max_right _ _) (le_maxAbsFrom k _)
    · exact ih _ x h

theorem maxAbsFrom_le (k : List Rat) : ∀ (m0 b : Rat), m0 ≤ b → (∀ x ∈ k, absR x ≤ b) → maxAbsFrom m0 k ≤ b := by
  induction k with
  | nil => intro m0 b h _; simpa using h
  | cons y k ih =>
    intro m0 b h hk
    rw [maxAbsFrom_cons]
    apply ih
    · exact max_le h (hk y (List.mem_cons_self))
    · intro x hx
      exact hk x (List.mem_cons_of_mem _ hx)

theorem maxAbsFrom_mem (k : List Rat) : ∀ m0 : Rat, maxAbsFrom m0 k = m0 ∨ ∃ x ∈ k, absR x = maxAbsFrom m0 k := by
  induction k with
  | nil => intro m0; left; rfl
  | cons y k ih =>
    intro m0
    rw [maxAbsFrom_cons]
    rcases ih (max m0 (absR y)) with h | ⟨x, hx, hxe⟩
    · rw [h]
      rcases le_total m0 (absR y) with hle | hle
      · right
        exact ⟨y, List.mem_cons_self, (max_eq_right hle).symm⟩
      · left
        exact max_eq_left hle
    · right
      exact ⟨x, List.mem_cons_of_mem _ hx, hxe⟩

theorem maxAbs_nonneg (k : List Rat) : 0 ≤ maxAbs k := by
  rw [maxAbs_eq_from]; exact le_maxAbsFrom k 0

theorem absR_le_maxAbs (k : List Rat) (x : Rat) (h : x ∈ k) : absR x ≤ maxAbs k := by
  rw [maxAbs_eq_from]; exact absR_le_maxAbsFrom k 0 x h

theorem maxAbs_le (k : List Rat) (b : Rat) (hb : 0 ≤ b) (h : ∀ x ∈ k, absR x ≤ b) : maxAbs k ≤ b := by
  rw [maxAbs_eq_from]; exact maxAbsFrom_le k 0 b hb h

/-- the extent is attained (for a non-empty list) -/
theorem maxAbs_mem (k : List Rat) (h : k ≠ []) : ∃ x ∈ k, absR x = maxAbs k := by
  rcases maxAbsFrom_mem k 0 with h0 | hex
  · cases k with
    | nil => exact absurd rfl h
    | cons y k =>
      refine ⟨y, List.mem_cons_self, ?_⟩
      have h1 : absR y ≤ maxAbs (y :: k) := absR_le_maxAbs _ y List.mem_cons_self
      rw [maxAbs_eq_from] at h1 ⊢
      rw [h0] at h1 ⊢
      exact le_antisymm h1 (absR_nonneg y)
  · exact hex

theorem maxAbs_nil : maxAbs [] = 0 := rfl

theorem pulseqAxis_length (k : List Rat) (enc : Nat) (all : Rat) : (pulseqAxis k enc all).length = k.length := by
  unfold pulseqAxis
  split_ifs <;> simp

theorem pulseqThreshold_pos : 0 < pulseqThreshold := by
  unfold pulseqThreshold; norm_num

/-- `|x·e/(2·km)| = |x|·e/(2·km)` for `e ≥ 0`, `km > 0` -/
theorem absR_pulseqScale (x e km : Rat) (he : 0 ≤ e) (hkm : 0 < km) :
    absR (pulseqScale x e km) = absR x * e / (2 * km) := by
  unfold pulseqScale
  rw [absR_eq_abs, absR_eq_abs, abs_div, abs_mul, abs_of_nonneg he,
    abs_of_pos (by linarith : (0 : Rat) < 2 * km)]

theorem absR_pulseqScale_le (x e km : Rat) (he : 0 ≤ e) (hkm : 0 < km) (hx : absR x ≤ km) :
    absR (pulseqScale x e km) ≤ e / 2 := by
  rw [absR_pulseqScale x e km he hkm, div_le_div_iff₀ (by linarith) (by norm_num)]
  nlinarith [mul_le_mul_of_nonneg_right hx he]

theorem absR_pulseqScale_eq (x e km : Rat) (he : 0 ≤ e) (hkm : 0 < km) (hx : absR x = km) :
    absR (pulseqScale x e km) = e / 2 := by
  rw [absR_pulseqScale x e km he hkm, hx]
  field_simp

/-- every rescaled position lies inside the encoding matrix: |k| ≤ enc/2 -/
theorem pulseqAxis_abs_le (k : List Rat) (enc : Nat) (all : Rat) (hall : 0 ≤ all) :
    ∀ y ∈ pulseqAxis k enc all, absR y ≤ (enc : Rat) / 2 := by
  have henc : (0 : Rat) ≤ (enc : Rat) := Nat.cast_nonneg enc
  intro y hy
  unfold pulseqAxis at hy
  split_ifs at hy with h
  · have hkm : 0 < maxAbs k := lt_of_le_of_lt (mul_nonneg (le_of_lt pulseqThreshold_pos) hall) h
    rcases List.mem_map.mp hy with ⟨x, hx, rfl⟩
    exact absR_pulseqScale_le x _ _ henc hkm (absR_le_maxAbs k x hx)
  · rcases List.mem_map.mp hy with ⟨x, _, rfl⟩
    have : absR (0 : Rat) = 0 := by rw [absR_eq_abs, abs_zero]
    rw [this]
    exact div_nonneg henc (by norm_num)

/-- the extent of an encoded direction is rescaled to exactly enc/2 -/
theorem pulseqAxis_extent (k : List Rat) (enc : Nat) (all : Rat) (hall : 0 ≤ all)
    (h : pulseqThreshold * all < maxAbs k) :
    maxAbs (pulseqAxis k enc all) = (enc : Rat) / 2 := by
  have henc : (0 : Rat) ≤ (enc : Rat) := Nat.cast_nonneg enc
  have hkm : 0 < maxAbs k := lt_of_le_of_lt (mul_nonneg (le_of_lt pulseqThreshold_pos) hall) h
  apply le_antisymm
  · exact maxAbs_le _ _ (div_nonneg henc (by norm_num)) (pulseqAxis_abs_le k enc all hall)
  · have hne : k ≠ [] := by
      intro hk
      rw [hk, maxAbs_nil] at hkm
      exact lt_irrefl _ hkm
    obtain ⟨x, hx, hxe⟩ := maxAbs_mem k hne
    have hmem : pulseqScale x (enc : Rat) (maxAbs k) ∈ pulseqAxis k enc all := by
      unfold pulseqAxis
      rw [if_pos h]
      exact List.mem_map.mpr ⟨x, hx, rfl⟩
    have := absR_le_maxAbs _ _ hmem
    rwa [absR_pulseqScale_eq x _ _ henc hkm hxe] at this

/-- a direction is rescaled with its own extent only: the other directions matter only through the
"is it encoded" decision -/
theorem pulseqAxis_indep (k : List Rat) (enc : Nat) (a b : Rat) (ha : pulseqThreshold * a < maxAbs k)
    (hb : pulseqThreshold * b < maxAbs k) :
    pulseqAxis k enc a = pulseqAxis k enc b := by
  unfold pulseqAxis
  rw [if_pos ha, if_pos hb]

/-- the extent of Cartesian phase-encoding positions `d·(i − n/2)` that include step 0 is `d·n/2` -/
theorem maxAbs_cartesian_steps (n : Nat) (d : Rat) (hd : 0 < d) (steps : List Nat)
    (h0 : 0 ∈ steps) (hlt : ∀ i ∈ steps, i < n) :
    maxAbs (steps.map (fun i : Nat => d * ((i : Rat) - (n : Rat) / 2))) = d * (n : Rat) / 2 := by
  have hn0 : (0 : Rat) ≤ (n : Rat) := Nat.cast_nonneg n
  apply le_antisymm
  · apply maxAbs_le
    · exact div_nonneg (mul_nonneg (le_of_lt hd) hn0) (by norm_num)
    · intro x hx
      rcases List.mem_map.mp hx with ⟨i, hi, rfl⟩
      have hin : (i : Rat) ≤ (n : Rat) := by exact_mod_cast le_of_lt (hlt i hi)
      have hi0 : (0 : Rat) ≤ (i : Rat) := Nat.cast_nonneg i
      rw [absR_eq_abs, abs_le]
      constructor
      · nlinarith [mul_nonneg (le_of_lt hd) hi0]
      · nlinarith [mul_nonneg (le_of_lt hd) (sub_nonneg.mpr hin), mul_nonneg (le_of_lt hd) hn0]
  · have hmem : d * (((0 : Nat) : Rat) - (n : Rat) / 2) ∈
        steps.map (fun i : Nat => d * ((i : Rat) - (n : Rat) / 2)) :=
      List.mem_map.mpr ⟨0, h0, rfl⟩
    have h1 := absR_le_maxAbs _ _ hmem
    have h2 : absR (d * (((0 : Nat) : Rat) - (n : Rat) / 2)) = d * (n : Rat) / 2 := by
      rw [absR_eq_abs]
      have : d * (((0 : Nat) : Rat) - (n : Rat) / 2) = -(d * (n : Rat) / 2) := by
        push_cast; ring
      rw [this, abs_neg, abs_of_nonneg (div_nonneg (mul_nonneg (le_of_lt hd) hn0) (by norm_num))]
    rwa [h2] at h1

/-- the same with an arbitrary order / repetition of the steps (a list of step numbers that contains step 0) -/
theorem pulseqAxis_cartesian_steps (n : Nat) (hn : 0 < n) (d : Rat) (hd : 0 < d) (all : Rat) (steps : List Nat)
    (h0 : 0 ∈ steps) (hlt : ∀ i ∈ steps, i < n) (hall : pulseqThreshold * all < d * (n : Rat) / 2) :
    pulseqAxis (steps.map (fun i : Nat => d * ((i : Rat) - (n : Rat) / 2))) n all
      = steps.map (fun i : Nat => (i : Rat) - (n : Rat) / 2) := by
  have hm := maxAbs_cartesian_steps n d hd steps h0 hlt
  have hnpos : (0 : Rat) < (n : Rat) := by exact_mod_cast hn
  unfold pulseqAxis
  rw [hm, if_pos hall, List.map_map]
  apply List.map_congr_left
  intro i _
  simp only [Function.comp, pulseqScale]
  have hd' : d ≠ 0 := ne_of_gt hd
  have hn' : (n : Rat) ≠ 0 := ne_of_gt hnpos
  field_simp

/-- **Cartesian phase encoding**: if step i of n (0 ≤ i < n) sits at k-space position d·(i − n/2) for a step
size d > 0, the rescaled position of step i is exactly i − n/2, whatever the other directions look like (as long
as this direction counts as encoded) -/
theorem pulseqAxis_cartesian (n : Nat) (hn : 0 < n) (d : Rat) (hd : 0 < d) (all : Rat)
    (hall : pulseqThreshold * all < d * (n : Rat) / 2) :
    pulseqAxis ((List.range n).map (fun i : Nat => d * ((i : Rat) - (n : Rat) / 2))) n all
      = (List.range n).map (fun i : Nat => (i : Rat) - (n : Rat) / 2) :=
  pulseqAxis_cartesian_steps n hn d hd all (List.range n) (List.mem_range.mpr hn)
    (fun _ hi => List.mem_range.mp hi) hall

/-- a direction that the sequence does not encode is exactly zero -/
theorem pulseqAxis_unencoded (k : List Rat) (enc : Nat) (all : Rat) (h : maxAbs k ≤ pulseqThreshold * all) :
    pulseqAxis k enc all = k.map (fun _ => 0) := by
  unfold pulseqAxis
  rw [if_neg (not_lt.mpr h)]

set_option linter.unusedTactic false in
set_option linter.unreachableTactic false in
/-- tie to the translated source -/
theorem src_pulseq_scale (x e km all : Rat) : Src.pulseq_scale x e km all = pulseqScale x e km := by
  unfold Src.pulseq_scale pulseqScale
  first | rfl | ring | (field_simp) | (field_simp; ring)

set_option linter.unusedTactic false in
set_option linter.unreachableTactic false in
theorem src_pulseq_threshold : Src.pulseq_threshold = pulseqThreshold := by
  unfold Src.pulseq_threshold pulseqThreshold
  first | rfl | norm_num


end M
