import Mrpro.Model.DcfLayout
/-! Proofs about the decomposition of `DcfData.from_traj_voronoi` (all 512 layouts, by kernel evaluation). -/
namespace M.DcfLayout

/-- every direction with an extent enters the product at least once, none without -/
theorem count_pos_iff : ∀ a b c d e f g h i : Bool, ∀ j : Fin 3,
    (0 < count (ofFlags a b c d e f g h i) j.val) = ((List.range 3).any (fun dd => varies (ofFlags a b c d e f g h i) j.val dd) = true) := by
  decide +kernel

/-- the exponent of the code is the sum of the multiplicities -/
theorem degree_eq_sum : ∀ a b c d e f g h i : Bool,
    degree (ofFlags a b c d e f g h i) = count (ofFlags a b c d e f g h i) 0 + count (ofFlags a b c d e f g h i) 1 + count (ofFlags a b c d e f g h i) 2 := by
  decide +kernel

/-- **the weights have the degree of a cell volume exactly for the layouts in which no direction is counted twice** -/
theorem degree_eq_dEnc_iff : ∀ a b c d e f g h i : Bool,
    (degree (ofFlags a b c d e f g h i) = dEnc (ofFlags a b c d e f g h i)) ↔ wellFormed (ofFlags a b c d e f g h i) = true := by
  decide +kernel

/-- in general the code's exponent is never too small -/
theorem dEnc_le_degree : ∀ a b c d e f g h i : Bool, dEnc (ofFlags a b c d e f g h i) ≤ degree (ofFlags a b c d e f g h i) := by
  decide +kernel

/-- a dense trajectory (every direction with an extent varies along every dimension that is used at all) is well formed, and so
are the separable layouts (every direction along its own dimensions only, one dimension each) -/
theorem dense_wellFormed : wellFormed (ofFlags true true true true true true true true true) = true
    ∧ wellFormed (ofFlags true false false false true false false false true) = true
    ∧ wellFormed (ofFlags false false false false true true false true true) = true := by decide +kernel

/-- witnesses of the known finding: a direction alone along one dimension and coupled along another (kz along k2, ky along
(k1,k0), kx along (k2,k0)) has exponent 4 instead of 3; a direction alone along two dimensions has exponent 2 instead of 1 -/
theorem double_counted_witness :
    degree (ofFlags true false false false true true true false true) = 4 ∧ dEnc (ofFlags true false false false true true true false true) = 3
    ∧ degree (ofFlags true false true false false false false false false) = 2 ∧ dEnc (ofFlags true false true false false false false false false) = 1 := by
  decide +kernel

end M.DcfLayout
