import Mrpro.Model.DcfLayout
/-! Proofs about the decomposition of `DcfData.from_traj_voronoi` (all 512 layouts, by kernel evaluation). -/
namespace M.DcfLayout

/-- every direction with an extent enters the product exactly once, none without -/
theorem count_eq : ∀ a b c d e f g h i : Bool, ∀ j : Fin 3,
    count (ofFlags a b c d e f g h i) j.val = (if (List.range 3).any (fun dd => varies (ofFlags a b c d e f g h i) j.val dd) then 1 else 0) := by
  decide +kernel

/-- **the weights have the degree of a cell volume for every layout** -/
theorem degree_eq_dEnc : ∀ a b c d e f g h i : Bool,
    degree (ofFlags a b c d e f g h i) = dEnc (ofFlags a b c d e f g h i) := by
  decide +kernel

/-- the shipped decomposition had the right degree exactly for the layouts in which it counted no direction twice, and never a
smaller one -/
theorem degreeShipped_eq_dEnc_iff : ∀ a b c d e f g h i : Bool,
    (degreeShipped (ofFlags a b c d e f g h i) = dEnc (ofFlags a b c d e f g h i)) ↔ wellFormedShipped (ofFlags a b c d e f g h i) = true := by
  decide +kernel
theorem dEnc_le_degreeShipped : ∀ a b c d e f g h i : Bool, dEnc (ofFlags a b c d e f g h i) ≤ degreeShipped (ofFlags a b c d e f g h i) := by
  decide +kernel

/-- where the shipped decomposition was right, the repaired one is the same decomposition: same joint set, same directions with a
1-D factor -/
theorem repaired_agrees_where_shipped_was_right : ∀ a b c d e f g h i : Bool,
    wellFormedShipped (ofFlags a b c d e f g h i) = true →
      degree (ofFlags a b c d e f g h i) = degreeShipped (ofFlags a b c d e f g h i)
      ∧ ∀ j : Fin 3, count (ofFlags a b c d e f g h i) j.val = countShipped (ofFlags a b c d e f g h i) j.val := by
  decide +kernel

/-- witnesses of the repaired defect: a direction alone along one dimension and coupled along another (kz along k2, ky along
(k1,k0), kx along (k2,k0)) had exponent 4 instead of 3; a direction alone along two dimensions had exponent 2 instead of 1 -/
theorem shipped_double_counted_witness :
    degreeShipped (ofFlags true false false false true true true false true) = 4 ∧ dEnc (ofFlags true false false false true true true false true) = 3
    ∧ degreeShipped (ofFlags true false true false false false false false false) = 2 ∧ dEnc (ofFlags true false true false false false false false false) = 1 := by
  decide +kernel

end M.DcfLayout
