import Mrpro.Model.CG
import Mrpro.Model.Algebra
import Mrpro.Lemmas.ReconL
import Mrpro.Lemmas.ReconCGL
/-! # C07 — reconstructions equal their defining linear-algebra problems

* the direct reconstruction is the expression `(W F S)ᴴ y`, whose evaluation through the library's
  operator algebra equals the plain expression (C04.`adj_build_eq_denH`) and is linear in `y` (C04.`den_linear`);
* the iterative reconstructions run `cg` (C06) on `(AᴴWA + λB) x = AᴴWy + λx₀`; a solution of the normal
  equations is the minimiser of the (regularised) least-squares functional, `λ = 0` gives the unregularised
  system, CG iterates are homogeneous in the data (C06.`cg_homogeneous`);
* prewhitening with the Cholesky factor of the noise covariance gives unit covariance. -/
namespace C07
open M
variable {K V : Type} [Field K] [LinearOrder K] [IsStrictOrderedRing K] [AddCommGroup V] [Module K V]

/-- for a symmetric positive definite system, `H x = b` iff `x` minimises `½⟨z, Hz⟩ − ⟨b, z⟩`
(= the regularised least-squares functional up to a constant when `H = AᴴWA + λB`, `b = AᴴWy + λx₀`) -/
theorem normal_eq_minimiser (B : V →ₗ[K] V →ₗ[K] K) (H : V →ₗ[K] V)
    (symm : ∀ u v, B u v = B v u) (posB : ∀ v, v ≠ 0 → 0 < B v v)
    (selfadj : ∀ u v, B (H u) v = B u (H v)) (posH : ∀ v, v ≠ 0 → 0 < B v (H v)) (b x : V) :
    H x = b ↔ ∀ z, B x (H x) / 2 - B b x ≤ B z (H z) / 2 - B b z :=
  M.normal_eq_minimiser B H symm posB selfadj posH b x

/-- `λ = 0`: the regularised system is the unregularised one -/
theorem reg_zero_eq_unreg (H Breg : V →ₗ[K] V) (rhs x0 : V) :
    (H + (0 : K) • Breg) = H ∧ rhs + (0 : K) • x0 = rhs := by simp

/-- prewhitening: with `N = L Lᴴ` (Cholesky), `L⁻¹ N L⁻ᴴ = 1` -/
theorem prewhiten_unit_cov {n : Type} [Fintype n] [DecidableEq n] {F : Type} [Field F] [StarRing F]
    (L : Matrix n n F) (hL : IsUnit L.det) :
    L⁻¹ * (L * L.conjTranspose) * (L⁻¹).conjTranspose = 1 := M.prewhiten_unit_cov L hL

/-- hence the whitened noise scan has unit sample covariance: `(1/m)(L⁻¹X)(L⁻¹X)ᴴ = 1` when `(1/m) X Xᴴ = L Lᴴ` -/
theorem whitened_noise_cov {n m : Type} [Fintype n] [Fintype m] [DecidableEq n] {F : Type} [Field F] [StarRing F]
    (L : Matrix n n F) (hL : IsUnit L.det) (X : Matrix n m F) (c : F) (hc : star c = c)
    (hN : c • (X * X.conjTranspose) = L * L.conjTranspose) :
    c • ((L⁻¹ * X) * (L⁻¹ * X).conjTranspose) = 1 := M.whitened_noise_cov L hL X c hc hN

/-! ### the iterative reconstructions: `cg` on `(AᴴWA + λB) x = AᴴWy + λx₀`, i.e. `H x = b` with `H` HPD,
in terms of the (regularised) least-squares functional `J(z) = ½⟨z, Hz⟩ − ⟨b, z⟩` -/

/-- after `k+1` iterations the image minimises the functional over `start + span{r₀, H r₀, …, Hᵏ r₀}` — for every number
of iterations, start value and data (C06.`cg_krylov_optimal` transported to the functional) -/
theorem iterate_minimises_functional (B : V →ₗ[K] V →ₗ[K] K) (H : V →ₗ[K] V)
    (symm : ∀ u v, B u v = B v u) (selfadj : ∀ u v, B (H u) v = B u (H v))
    (posH : ∀ v, v ≠ 0 → 0 < B v (H v))
    (b : V) (x0 : Option V) (maxIter : Nat) (tol2 : Option K)
    (x : V) (reason : String) (tr : List (CGTrace V)) (xs : V) (hxs : H xs = b)
    (hrun : cgRun (M.modOps' B) (fun v => H v) b x0 maxIter tol2 = .ok x reason tr)
    (k : ℕ) (hk : k < tr.length) :
    ∀ d ∈ Submodule.span K (Set.range (fun j : Fin (k + 1) => (H ^ (j : ℕ)) (b - H (M.start' b x0)))),
      B tr[k].x (H tr[k].x) / 2 - B b tr[k].x
        ≤ B (M.start' b x0 + d) (H (M.start' b x0 + d)) / 2 - B b (M.start' b x0 + d) :=
  M.cg_iterate_minimises_functional B H symm selfadj posH b x0 maxIter tol2 x reason tr xs hxs hrun k hk

/-- with at least `dim` iterations (tolerance 0) the reconstruction *is* the minimiser of the functional -/
theorem enough_iterations_give_minimiser [Module.Finite K V] (B : V →ₗ[K] V →ₗ[K] K) (H : V →ₗ[K] V)
    (symm : ∀ u v, B u v = B v u) (posB : ∀ v, v ≠ 0 → 0 < B v v)
    (selfadj : ∀ u v, B (H u) v = B u (H v)) (posH : ∀ v, v ≠ 0 → 0 < B v (H v))
    (b : V) (x0 : Option V) (maxIter : Nat) (hn : Module.finrank K V ≤ maxIter)
    (x : V) (reason : String) (tr : List (CGTrace V))
    (hrun : cgRun (M.modOps' B) (fun v => H v) b x0 maxIter none = .ok x reason tr) :
    ∀ z, B x (H x) / 2 - B b x ≤ B z (H z) / 2 - B b z :=
  M.cg_result_minimises_functional B H symm posB selfadj posH b x0 maxIter hn x reason tr hrun

end C07
