import Mrpro.Model.CG
import Mrpro.Model.Algebra
import Mrpro.Lemmas.ReconL
/-! # C07 — reconstructions equal their defining linear-algebra problems

* the direct reconstruction is the expression `(W F S)ᴴ y`, whose evaluation through the library's
  operator algebra equals the plain expression (C04.`adj_build_eq_denH`) and is linear in `y` (C04.`den_linear`);
* the iterative reconstructions run `cg` (C06) on `(AᴴWA + λB) x = AᴴWy + λx₀`; a solution of the normal
  equations is the minimiser of the (regularised) least-squares functional, `λ = 0` gives the unregularised
  system, CG iterates are homogeneous in the data (C06.`cg_homogeneous`);
* prewhitening with the Cholesky factor of the noise covariance gives unit covariance. -/
namespace C07
open M
variable {K V : Type} [Field K] [LinearOrder K] [IsStrictOrderedRing K] [AddCommGroup V] [Module K V]

/-- for a symmetric positive definite system, `H x = b` iff `x` minimises `½⟨z, Hz⟩ − ⟨b, z⟩`
(= the regularised least-squares functional up to a constant when `H = AᴴWA + λB`, `b = AᴴWy + λx₀`) -/
theorem normal_eq_minimiser (B : V →ₗ[K] V →ₗ[K] K) (H : V →ₗ[K] V)
    (symm : ∀ u v, B u v = B v u) (posB : ∀ v, v ≠ 0 → 0 < B v v)
    (selfadj : ∀ u v, B (H u) v = B u (H v)) (posH : ∀ v, v ≠ 0 → 0 < B v (H v)) (b x : V) :
    H x = b ↔ ∀ z, B x (H x) / 2 - B b x ≤ B z (H z) / 2 - B b z :=
  M.normal_eq_minimiser B H symm posB selfadj posH b x

/-- `λ = 0`: the regularised system is the unregularised one -/
theorem reg_zero_eq_unreg (H Breg : V →ₗ[K] V) (rhs x0 : V) :
    (H + (0 : K) • Breg) = H ∧ rhs + (0 : K) • x0 = rhs := by simp

/-- prewhitening: with `N = L Lᴴ` (Cholesky), `L⁻¹ N L⁻ᴴ = 1` -/
theorem prewhiten_unit_cov {n : Type} [Fintype n] [DecidableEq n] {F : Type} [Field F] [StarRing F]
    (L : Matrix n n F) (hL : IsUnit L.det) :
    L⁻¹ * (L * L.conjTranspose) * (L⁻¹).conjTranspose = 1 := M.prewhiten_unit_cov L hL

/-- hence the whitened noise scan has unit sample covariance: `(1/m)(L⁻¹X)(L⁻¹X)ᴴ = 1` when `(1/m) X Xᴴ = L Lᴴ` -/
theorem whitened_noise_cov {n m : Type} [Fintype n] [Fintype m] [DecidableEq n] {F : Type} [Field F] [StarRing F]
    (L : Matrix n n F) (hL : IsUnit L.det) (X : Matrix n m F) (c : F) (hc : star c = c)
    (hN : c • (X * X.conjTranspose) = L * L.conjTranspose) :
    c • ((L⁻¹ * X) * (L⁻¹ * X).conjTranspose) = 1 := M.whitened_noise_cov L hL X c hc hN

end C07
