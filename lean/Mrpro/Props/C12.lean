import Mrpro.Model.Rotation
import Mrpro.Lemmas.RotationL
import Mrpro.Lemmas.EulerL
/-! # C12 — Rotation agrees with the reference implementation it reimplements

What can be stated about the conversions without the transcendental functions: with
`s = sin(θ/2)`, `c = cos(θ/2)` only `s² + c² = 1` is used, so the statements hold in every
commutative ring.  Agreement with scipy on the continuum of rotations (`as_euler`, rotation
vectors, `mean`, `align_vectors`) is established by the three-way correspondence check. -/
namespace C12
open M
variable {K : Type} [CommRing K]

/-- the elementary quaternion about storage axis `i` is the rotation matrix about that axis by the
full angle (`cos θ = c² − s²`, `sin θ = 2sc`) -/
theorem elementary_toMat (i : Nat) (hi : i < 3) (s c : K) (h : s * s + c * c = 1) :
    (elementaryG i s c).toMat = axisRot i (c * c - s * s) (s * c + s * c) := M.elementary_toMat i hi s c h

/-- `from_euler`: intrinsic sequences multiply the elementary rotations left to right, extrinsic
sequences right to left — for every sequence length and every angle -/
theorem fromEuler_toMat (axes : List Nat) (sc : List (K × K)) (intrinsic : Bool) (hlen : axes.length = sc.length)
    (hpos : 0 < axes.length) :
    (fromEulerG axes sc intrinsic).toMat =
      let ms := (axes.zip sc).map (fun (a, t) => (elementaryG a t.1 t.2).toMat)
      if intrinsic then ms.tail.foldl Mat3.mul (ms.headD (Q.toMat ⟨0, 0, 0, 1⟩))
      else ms.tail.foldl (fun acc m => Mat3.mul m acc) (ms.headD (Q.toMat ⟨0, 0, 0, 1⟩)) :=
  M.fromEuler_toMat axes sc intrinsic hlen hpos

/-- `q` and `−q` (the canonical form flips the sign) are the same rotation -/
theorem canonical_same_rotation (q : Q K) : q.neg.toMat = q.toMat := M.toMat_neg q

/-- composition agrees with matrix multiplication (shared with C13) -/
theorem compose_is_matrix_product (p q : Q K) : (Q.mul p q).toMat = Mat3.mul p.toMat q.toMat := M.toMat_mul p q

/-- the inverse is the transposed matrix -/
theorem conj_toMat (q : Q K) : q.conj.toMat = q.toMat.transpose := M.conj_toMat q

/-- non-vacuity of `s² + c² = 1` over ℚ: the 3-4-5 angle -/
example : ((3 : ℚ) / 5) * (3 / 5) + (4 / 5) * (4 / 5) = 1 := by norm_num

end C12
