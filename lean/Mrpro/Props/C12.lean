import Mrpro.Lemmas.SrcL
import Mrpro.Lemmas.SrcRotL
import Mrpro.Lemmas.SrcCanonL
import Mrpro.Model.Rotation
import Mrpro.Lemmas.RotationL
import Mrpro.Lemmas.EulerL
import Mrpro.Lemmas.MatQuatL
import Mrpro.Lemmas.RotvecL
import Mrpro.Lemmas.EulerRoundL
/-! # C12 — Rotation agrees with the reference implementation it reimplements

What can be stated about the conversions without the transcendental functions: with
`s = sin(θ/2)`, `c = cos(θ/2)` only `s² + c² = 1` is used, so the statements hold in every
commutative ring.  Agreement with scipy on the continuum of rotations (`as_euler`, rotation
vectors, `mean`, `align_vectors`) is established by the three-way correspondence check. -/
namespace C12
open M
variable {K : Type} [CommRing K]

/-- the elementary quaternion about storage axis `i` is the rotation matrix about that axis by the
full angle (`cos θ = c² − s²`, `sin θ = 2sc`) -/
theorem elementary_toMat (i : Nat) (hi : i < 3) (s c : K) (h : s * s + c * c = 1) :
    (elementaryG i s c).toMat = axisRot i (c * c - s * s) (s * c + s * c) := M.elementary_toMat i hi s c h

/-- `from_euler`: intrinsic sequences multiply the elementary rotations left to right, extrinsic
sequences right to left — for every sequence length and every angle -/
theorem fromEuler_toMat (axes : List Nat) (sc : List (K × K)) (intrinsic : Bool) (hlen : axes.length = sc.length)
    (hpos : 0 < axes.length) :
    (fromEulerG axes sc intrinsic).toMat =
      let ms := (axes.zip sc).map (fun (a, t) => (elementaryG a t.1 t.2).toMat)
      if intrinsic then ms.tail.foldl Mat3.mul (ms.headD (Q.toMat ⟨0, 0, 0, 1⟩))
      else ms.tail.foldl (fun acc m => Mat3.mul m acc) (ms.headD (Q.toMat ⟨0, 0, 0, 1⟩)) :=
  M.fromEuler_toMat axes sc intrinsic hlen hpos

/-- `q` and `−q` (the canonical form flips the sign) are the same rotation -/
theorem canonical_same_rotation (q : Q K) : q.neg.toMat = q.toMat := M.toMat_neg q

/-- composition agrees with matrix multiplication (shared with C13) -/
theorem compose_is_matrix_product (p q : Q K) : (Q.mul p q).toMat = Mat3.mul p.toMat q.toMat := M.toMat_mul p q

/-- the inverse is the transposed matrix -/
theorem conj_toMat (q : Q K) : q.conj.toMat = q.toMat.transpose := M.conj_toMat q

/-- non-vacuity of `s² + c² = 1` over ℚ: the 3-4-5 angle -/
example : ((3 : ℚ) / 5) * (3 / 5) + (4 / 5) * (4 / 5) = 1 := by norm_num

/-! ### Tie to the source: integer code translated from `/repo` on this run -/

/-- `_quaternion_to_euler`: for every axis triple an Euler sequence can produce, the third axis
computed by the source completes {0,1,2} and `sign` is the parity of the axis permutation -/
theorem src_euler_axes (q r s : Int) (hq : 0 ≤ q ∧ q ≤ 2) (hr : 0 ≤ r ∧ r ≤ 2) (hs : 0 ≤ s ∧ s ≤ 2)
    (hqr : q ≠ r) (hrs : r ≠ s) :
    let p := M.Src.euler_axes q r s
    0 ≤ p.1 ∧ p.1 ≤ 2 ∧ p.1 ≠ q ∧ p.1 ≠ r ∧ p.2 = M.leviCivita q r p.1 :=
  M.SrcL.euler_axes_spec q r s hq hr hs hqr hrs

/-- … and equals the formulas used by the model -/
theorem src_euler_axes_eq (q r s : Int) :
    M.Src.euler_axes q r s = (M.eulerThird q r s, M.eulerSign q r (M.eulerThird q r s)) :=
  M.SrcL.euler_axes_eq q r s

/-! ### matrix ↔ quaternion round trip (`_matrix_to_quaternion`, Shepperd's method with relu / first-maximum argmax) -/

/-- `from_matrix(r.as_matrix())` is the same rotation: over every ordered field with a square root (in particular ℝ) the
quaternion recovered from the matrix of a unit quaternion `q` is `q` or `-q` (the q ~ -q ambiguity of the property) … -/
theorem matrixToQuat_toMat {K : Type} [Field K] [LinearOrder K] [IsStrictOrderedRing K] (sqrt : K → K)
    (hs : ∀ x, 0 ≤ x → 0 ≤ sqrt x ∧ sqrt x * sqrt x = x) (q : M.Q K) (hq : q.normSq = 1) :
    M.matrixToQuatG sqrt q.toMat = q ∨ M.matrixToQuatG sqrt q.toMat = q.neg :=
  M.matrixToQuat_toMat sqrt hs q hq

/-- … hence has the same rotation matrix: `as_matrix ∘ from_matrix ∘ as_matrix = as_matrix`, for every branch of the method -/
theorem toMat_matrixToQuat {K : Type} [Field K] [LinearOrder K] [IsStrictOrderedRing K] (sqrt : K → K)
    (hs : ∀ x, 0 ≤ x → 0 ≤ sqrt x ∧ sqrt x * sqrt x = x) (q : M.Q K) (hq : q.normSq = 1) :
    (M.matrixToQuatG sqrt q.toMat).toMat = q.toMat :=
  M.toMat_matrixToQuat sqrt hs q hq

/-- … stated for the matrix formula *as it stands in the source now* (`_quaternion_to_matrix`, regenerated into
`M.Src.rot_to_matrix` on every run): `from_matrix(as_matrix(q))` is `q` or `−q` -/
theorem src_matrix_round_trip {K : Type} [Field K] [LinearOrder K] [IsStrictOrderedRing K] (sqrt : K → K)
    (hs : ∀ x, 0 ≤ x → 0 ≤ sqrt x ∧ sqrt x * sqrt x = x) (q : M.Q K) (hq : q.normSq = 1) :
    M.matrixToQuatG sqrt (M.Src.rot_to_matrix q.a q.b q.c q.w) = q ∨ M.matrixToQuatG sqrt (M.Src.rot_to_matrix q.a q.b q.c q.w) = q.neg := by
  rw [M.SrcL.rot_to_matrix_eq]; exact M.matrixToQuat_toMat sqrt hs q hq
/-- the quaternion product in the source (`_compose_quaternions_single`) is the model's `Q.mul` -/
theorem src_compose {K : Type} [CommRing K] (p q : M.Q K) : M.Src.rot_compose p.a p.b p.c p.w q.a q.b q.c q.w = M.Q.mul p q :=
  M.SrcL.rot_compose_eq p q

/-! ### `_canonical_quaternion` (which of `q`, `−q` is stored / returned): the sign rule is translated from the source on every run
(`M.Src.rot_needs_inversion`, with the index map read from `AXIS_ORDER`) -/
/-- the rule in the source is the rule of the model, for every scalar type with `<` and `==` (also `Float`, where the driver runs it) -/
theorem src_canonical_rule {K : Type} [LT K] [DecidableLT K] [BEq K] [OfNat K 0] [Neg K] (q : M.Q K) :
    M.Src.rot_needs_inversion q.a q.b q.c q.w = M.needsInversion 2 1 0 q := M.SrcL.rot_needs_inversion_eq q
/-- the canonical form is `q` or `−q`, has non-negative scalar part … -/
theorem canonical_form {K : Type} [Field K] [LinearOrder K] [IsStrictOrderedRing K] (q : M.Q K) :
    (M.canonicalG 2 1 0 q = q ∨ M.canonicalG 2 1 0 q = q.neg) ∧ 0 ≤ (M.canonicalG 2 1 0 q).w :=
  ⟨M.SrcL.canonical_cases q, M.SrcL.canonical_w_nonneg q⟩
/-- … and is the *same* quaternion for `q` and `−q` (every non-zero quaternion): the `q ~ −q` ambiguity is resolved consistently,
so equal rotations get equal canonical quaternions -/
theorem canonical_of_neg {K : Type} [Field K] [LinearOrder K] [IsStrictOrderedRing K] (q : M.Q K)
    (hq : q.a ≠ 0 ∨ q.b ≠ 0 ∨ q.c ≠ 0 ∨ q.w ≠ 0) : M.canonicalG 2 1 0 q.neg = M.canonicalG 2 1 0 q := M.SrcL.canonical_neg q hq
/-- the executable model is this function at `Float` -/
theorem float_canonical_is_generic : M.F.canonical = fun ix iy iz q => M.canonicalG ix iy iz q := rfl
example : M.canonicalG 2 1 0 (⟨1, -2, 0, 0⟩ : M.Q Rat) = ⟨-1, 2, 0, 0⟩ ∧ M.canonicalG 2 1 0 (⟨-1, 2, 0, 0⟩ : M.Q Rat) = ⟨-1, 2, 0, 0⟩ := by decide +kernel

/-- the instance at the reals with `Real.sqrt` -/
theorem matrixToQuat_toMat_real (q : M.Q ℝ) (hq : q.normSq = 1) :
    M.matrixToQuatG Real.sqrt q.toMat = q ∨ M.matrixToQuatG Real.sqrt q.toMat = q.neg :=
  M.matrixToQuat_toMat_real q hq

/-- the executable (Float) model used by the correspondence check is this very function at `Float.sqrt` -/
theorem float_model_is_generic : M.F.matrixToQuat = M.matrixToQuatG Float.sqrt := M.F.matrixToQuat_eq_G

/-! ### rotation vector ↔ quaternion round trips (`from_rotvec`, `as_rotvec`), over ℝ for any square root / sine / cosine / atan2
satisfying `M.TrigSpec` (instance: `Real.sqrt`, `Real.sin`, `Real.cos`, `arg (w + i s)`, `Real.pi`) -/

/-- `from_rotvec(r.as_rotvec())` is `r`: for every unit quaternion in canonical form (`w ≥ 0`, including rotations by π) -/
theorem fromRotvec_toRotvec {T : M.TrigOps ℝ} (hT : M.TrigSpec T) (q : M.Q ℝ) (hq : q.normSq = 1) (hw : 0 ≤ q.w) :
    M.fromRotvecG T (M.toRotvecG T q) = q := M.fromRotvec_toRotvec hT q hq hw

/-- `as_rotvec(from_rotvec(v))` is `v` for every rotation vector shorter than π -/
theorem toRotvec_fromRotvec {T : M.TrigOps ℝ} (hT : M.TrigSpec T) (hI : M.TrigSpecInv T) (v : M.V3 ℝ)
    (hv : T.sqrt (v.x0 * v.x0 + v.x1 * v.x1 + v.x2 * v.x2) < T.pi) :
    M.toRotvecG T (M.fromRotvecG T v) = v := M.toRotvec_fromRotvec hT hI v hv

/-- the instance at the reals -/
theorem fromRotvec_toRotvec_real (q : M.Q ℝ) (hq : q.normSq = 1) (hw : 0 ≤ q.w) :
    M.fromRotvecG M.realTrig (M.toRotvecG M.realTrig q) = q := M.fromRotvec_toRotvec_real q hq hw
theorem toRotvec_fromRotvec_real (v : M.V3 ℝ) (hv : Real.sqrt (v.x0 * v.x0 + v.x1 * v.x1 + v.x2 * v.x2) < Real.pi) :
    M.toRotvecG M.realTrig (M.fromRotvecG M.realTrig v) = v := M.toRotvec_fromRotvec_real v hv

/-- the executable (Float) conversions used by the correspondence check are these generic functions at the Float operations -/
theorem float_rotvec_is_generic : M.F.fromRotvec = M.fromRotvecG M.F.floatTrig ∧ M.F.toRotvec = M.toRotvecG M.F.floatTrig :=
  ⟨M.F.fromRotvec_eq_G, M.F.toRotvec_eq_G⟩

/-! ### Euler angles: `from_euler(seq, r.as_euler(seq))` is `r` (Bernardes–Viollet algorithm as coded, `M.toEulerG`, over ℝ with
`Real.sqrt/sin/cos`, `atan2 = arg`, exact gimbal-lock test `eps = 0`) -/

/-- for every unit quaternion, every one of the 12 axis sequences (adjacent axes different), intrinsic and extrinsic, in every branch
of the algorithm (generic, gimbal lock at 0 and at π): the rotation matrix of `from_euler` of the returned angles is the matrix of `q` -/
theorem euler_round_trip (q : M.Q ℝ) (hq : q.normSq = 1) {i j k : Nat} (hi : i < 3) (hj : j < 3) (hk : k < 3)
    (hij : i ≠ j) (hjk : j ≠ k) (extrinsic : Bool) :
    (M.fromEulerG [i, j, k] ((M.toEulerG M.realTrig Int.cast 0 q [i, j, k] extrinsic).map M.halfSC) (!extrinsic)).toMat = q.toMat :=
  M.euler_round_trip q hq hi hj hk hij hjk extrinsic

/-- with the code's positive threshold `eps` the same holds whenever neither gimbal-lock branch is taken -/
theorem euler_round_trip_generic (eps : ℝ) (q : M.Q ℝ) (hq : q.normSq = 1) {i j k : Nat} (hi : i < 3) (hj : j < 3) (hk : k < 3)
    (hij : i ≠ j) (hjk : j ≠ k) (extrinsic : Bool)
    (h1 : M.eCase1 eps q (if extrinsic then i else k) j (if extrinsic then k else i) = false)
    (h2 : M.eCase2 eps q (if extrinsic then i else k) j (if extrinsic then k else i) = false) :
    (M.fromEulerG [i, j, k] ((M.toEulerG M.realTrig Int.cast eps q [i, j, k] extrinsic).map M.halfSC) (!extrinsic)).toMat = q.toMat :=
  M.euler_round_trip_generic eps q hq hi hj hk hij hjk extrinsic h1 h2

/-- the executable (Float) `as_euler` model used by the correspondence check is this generic function at the Float operations -/
theorem float_toEuler_is_generic : M.F.toEuler = M.toEulerG M.F.floatTrig Float.ofInt 1e-7 := M.F.toEuler_eq_G

end C12
