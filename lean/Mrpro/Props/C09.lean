import Mrpro.Model.Ops
namespace C09
end C09
