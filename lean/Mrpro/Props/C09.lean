import Mrpro.Lemmas.WaveletLayoutL
import Mrpro.Lemmas.PcaL
import Mrpro.Lemmas.SrcL
import Mrpro.Model.OpsND
import Mrpro.Lemmas.Basic
import Mrpro.Lemmas.Action
/-! # C09 — elementary operators compute exactly their documented mathematical action -/
namespace C09
open M
variable {K : Type} [CommRing K] [StarRing K]

/-! ### zero padding / cropping -/

/-- the centre sample (index `n/2`) stays the centre sample, for padding *and* cropping, all parities -/
theorem padCrop_centre (old new : Nat) (ho : 0 < old) (hn : 0 < new) (x : Nat → K) :
    padCrop old new x (new / 2) = x (old / 2) := M.padCrop_centre old new ho hn x

/-- …and `new/2 − old/2` is the *only* shift with that property -/
theorem padCrop_centre_iff (old new : Nat) (ho : 0 < old) (s : Int) :
    (∀ x : Nat → Int, padCropWith s old x (new / 2) = x (old / 2)) ↔ s = padShift old new :=
  M.padCrop_centre_iff old new ho s

/-- witness: the rule of the pinned commit (`trunc(diff/2)` on the left) is a different shift for
odd → even padding, so it moved the centre (repaired by a `fix:` commit) -/
theorem padShiftShipped_ne : padShiftShipped 3 6 ≠ padShift 3 6 ∧ padShiftShipped 4 3 ≠ padShift 4 3 := by decide

/-- crop-after-pad is the identity -/
theorem crop_pad_id (old new : Nat) (h : old ≤ new) (x : Nat → K) (i : Nat) (hi : i < old) :
    padCrop new old (padCrop old new x) i = x i := M.crop_pad_id old new h x i hi

/-- padded region is zero: outside the embedded block everything is 0 -/
theorem pad_zero_outside (old new : Nat) (x : Nat → K) (j : Nat)
    (hj : (j : Int) < padShift old new ∨ padShift old new + old ≤ (j : Int)) :
    padCrop old new x j = 0 := M.pad_zero_outside old new x j hj

/-! ### Cartesian sampling -/

/-- `S Sᴴ = identity` on samples that are inside the grid and hit by exactly one sample -/
theorem gather_scatterAdd_unique (S G : Nat) (idx : Nat → Option Nat) (y : Nat → K) (s g : Nat)
    (hs : s < S) (hg : g < G) (h : idx s = some g) (huniq : ∀ s', s' < S → idx s' = some g → s' = s) :
    gather G idx (scatterAdd S idx y) s = y s := M.gather_scatterAdd_unique S G idx y s g hs hg h huniq

/-- samples outside the grid read zero -/
theorem gather_outside (G : Nat) (idx : Nat → Option Nat) (x : Nat → K) (s : Nat)
    (h : idx s = none ∨ ∃ g, idx s = some g ∧ G ≤ g) : gather G idx x s = 0 := M.gather_outside G idx x s h

/-- `Sᴴ S` is diagonal: multiplication by the number of samples on each grid point … -/
theorem scatterAdd_gather_mask (S G : Nat) (idx : Nat → Option Nat) (x : Nat → K) (g : Nat) (hg : g < G) :
    scatterAdd S idx (gather G idx x) g
      = (sumTo S (fun s => if idx s = some g then (1 : K) else 0)) * x g := M.scatterAdd_gather_mask S G idx x g hg

/-- … which is a 0/1 mask when no grid point is sampled twice -/
theorem mask_zero_one (S : Nat) (idx : Nat → Option Nat) (g : Nat)
    (hinj : ∀ s s', s < S → s' < S → idx s = some g → idx s' = some g → s = s') :
    sumTo S (fun s => if idx s = some g then (1 : K) else 0) = 0 ∨
    sumTo S (fun s => if idx s = some g then (1 : K) else 0) = 1 := M.mask_zero_one S idx g hinj

/-- the k-space centre `k = 0` is grid index `n/2` -/
theorem axisIdx_centre (n : Nat) (hn : 0 < n) : axisIdx n 0 = some (n / 2) := M.axisIdx_centre n hn

/-- the flat index `kz·Ny·Nx + ky·Nx + kx` is inside the grid and injective on in-range coordinates -/
theorem ravel3_lt (nz ny nx : Nat) (kz ky kx : Int) (f : Nat) (h : ravel3 nz ny nx kz ky kx = some f) :
    f < nz * ny * nx := M.ravel3_lt nz ny nx kz ky kx f h
theorem ravel3_injective (nz ny nx : Nat) (kz ky kx kz' ky' kx' : Int) (f : Nat)
    (h : ravel3 nz ny nx kz ky kx = some f) (h' : ravel3 nz ny nx kz' ky' kx' = some f) :
    kz = kz' ∧ ky = ky' ∧ kx = kx' := M.ravel3_injective nz ny nx kz ky kx kz' ky' kx' f h h'

/-! ### finite differences: the *generated* kernels are the documented stencils -/

theorem fd_forward_kernel : Gen.fdKernel_forward = [0, -1, 1] := by decide
theorem fd_backward_kernel : Gen.fdKernel_backward = [-1, 1, 0] := by decide
theorem fd_central_kernel : Gen.fdKernel_central = [-1/2, 0, 1/2] := by decide +kernel

/-- forward difference, zero boundary: `x[i+1] − x[i]`, with `x[n] = 0` -/
theorem fd_forward_stencil_zeros (n : Nat) (x : Nat → Rat) (i : Nat) (hi : i < n) :
    corr3L false Gen.fdKernel_forward n x i = (if i + 1 < n then x (i + 1) else 0) - x i :=
  M.fd_forward_stencil_zeros n x i hi
theorem fd_forward_stencil_circular (n : Nat) (x : Nat → Rat) (i : Nat) (hi : i < n) :
    corr3L true Gen.fdKernel_forward n x i = x ((i + 1) % n) - x i := M.fd_forward_stencil_circular n x i hi
/-- backward difference: `x[i] − x[i−1]`, with `x[−1] = 0` -/
theorem fd_backward_stencil_zeros (n : Nat) (x : Nat → Rat) (i : Nat) (hi : i < n) :
    corr3L false Gen.fdKernel_backward n x i = x i - (if 0 < i then x (i - 1) else 0) :=
  M.fd_backward_stencil_zeros n x i hi
theorem fd_backward_stencil_circular (n : Nat) (x : Nat → Rat) (i : Nat) (hi : i < n) :
    corr3L true Gen.fdKernel_backward n x i = x i - x ((i + n - 1) % n) := M.fd_backward_stencil_circular n x i hi
/-- central difference: `(x[i+1] − x[i−1]) / 2` -/
theorem fd_central_stencil_zeros (n : Nat) (x : Nat → Rat) (i : Nat) (hi : i < n) :
    corr3L false Gen.fdKernel_central n x i
      = ((if i + 1 < n then x (i + 1) else 0) - (if 0 < i then x (i - 1) else 0)) / 2 :=
  M.fd_central_stencil_zeros n x i hi
theorem fd_central_stencil_circular (n : Nat) (x : Nat → Rat) (i : Nat) (hi : i < n) :
    corr3L true Gen.fdKernel_central n x i = (x ((i + 1) % n) - x ((i + n - 1) % n)) / 2 :=
  M.fd_central_stencil_circular n x i hi

/-! ### rearrange is a permutation: `ravel`/`unravel` are mutually inverse on valid indices -/

theorem ravel_unravel (shape : List Nat) (f : Nat) (hf : f < prodL shape) :
    ravel shape (unravel shape f) = f := M.ravel_unravel shape f hf
theorem unravel_length (shape : List Nat) (f : Nat) : (unravel shape f).length = shape.length :=
  M.unravel_length shape f

/-! ### wavelet coefficient bookkeeping -/

/-- the per-level size recursion of `WaveletOp` (`ceil(n/2) + L//2 − 1`) equals the DWT output length
`⌊(n + L − 1)/2⌋` of PyWavelets for every even filter length `L` -/
theorem wavelet_coeff_len (n L : Nat) (hL : L % 2 = 0) (hL0 : 0 < L) :
    (n + 1) / 2 + L / 2 - 1 = (n + L - 1) / 2 := by omega

/-! ### Tie to the source: integer code translated from `/repo` on this run (`M.Src.*`) -/

/-- the padding amounts computed by the current source of `zero_pad_or_crop` are the model's
`padShift` (left) and the remainder (right), for all sizes -/
theorem src_pad_rule (old new : Nat) :
    M.Src.pad_rule old new = (M.padShift old new, (new : Int) - old - M.padShift old new) :=
  M.SrcL.pad_rule_eq old new

/-- `filter_separable` centres a kernel of length `n` at `(n-1)/2`, paddings add up to `n-1` -/
theorem src_filter_pad (n : Nat) (h : 0 < n) :
    (M.Src.filter_pad n).1 = ((n - 1) / 2 : Nat) ∧ (M.Src.filter_pad n).1 + (M.Src.filter_pad n).2 = n - 1 :=
  M.SrcL.filter_pad_spec n h

/-- the three-tap stencils of `FiniteDifferenceOp` get one sample on each side (as `M.corr3` assumes) -/
theorem src_filter_pad_three : M.Src.filter_pad 3 = (1, 1) := M.SrcL.filter_pad_three

/-- `CartesianSamplingOp`: the grid index computed by the source for each axis is `axisIdx` -/
theorem src_sampling_axis (k : Int) (n : Nat) :
    M.axisIdx n k = (if 0 ≤ M.Src.sampling_kx k n ∧ M.Src.sampling_kx k n < n
      then some (M.Src.sampling_kx k n).toNat else none)
    ∧ M.Src.sampling_ky k n = M.Src.sampling_kx k n ∧ M.Src.sampling_kz k n = M.Src.sampling_kx k n :=
  M.SrcL.sampling_axis_eq k n

/-- `CartesianSamplingOp`: the flat index computed by the source is `ravel3` -/
theorem src_sampling_flat (nz ny nx : Nat) (kz ky kx : Int) (z y x : Nat)
    (hz : M.axisIdx nz kz = some z) (hy : M.axisIdx ny ky = some y) (hx : M.axisIdx nx kx = some x) :
    M.ravel3 nz ny nx kz ky kx = some (M.Src.sampling_flat z ny nx y x).toNat :=
  M.SrcL.sampling_flat_eq nz ny nx kz ky kx z y x hz hy hx

/-- `WaveletOp`: the coefficient length per level computed by the source is the PyWavelets length
`⌊(n + L - 1)/2⌋` for every signal length and every even filter length -/
theorem src_wavelet_level_shape (n L : Nat) (hL : L % 2 = 0) (hL0 : 0 < L) :
    M.Src.wavelet_level_shape n L = (((n + L - 1) / 2 : Nat) : Int) :=
  M.SrcL.wavelet_level_shape_eq n L hL hL0

/-! ### PCA compression (`PCACompressionOp`): given the decomposition `C = U Λ Uᴴ` of the correlation matrix (the SVD routine is a
parameter), the compression matrix `M` = first `n` rows of `Uᴴ` … -/
section PCA
open Matrix
variable {𝕜 : Type} [RCLike 𝕜] {n c : ℕ}

/-- … has orthonormal rows, and compress-then-expand is an orthogonal projection -/
theorem pca_projection (h : n ≤ c) (U : Matrix (Fin c) (Fin c) 𝕜) (hU : Uᴴ * U = 1) :
    M.pcaMat h U * (M.pcaMat h U)ᴴ = 1
    ∧ ((M.pcaMat h U)ᴴ * M.pcaMat h U) * ((M.pcaMat h U)ᴴ * M.pcaMat h U) = (M.pcaMat h U)ᴴ * M.pcaMat h U
    ∧ ((M.pcaMat h U)ᴴ * M.pcaMat h U)ᴴ = (M.pcaMat h U)ᴴ * M.pcaMat h U :=
  ⟨M.pca_rows_orthonormal h U hU, (M.pca_projection h U hU).1, (M.pca_projection h U hU).2⟩

/-- … onto the *dominant* subspace: the compressed data carry the sum of the `n` largest eigenvalues, and no compression with
orthonormal rows carries more (Ky Fan) — in data terms, with `X` = coils × samples and `X Xᴴ = C` -/
theorem pca_dominant (h : n ≤ c) (U : Matrix (Fin c) (Fin c) 𝕜) (hU : Uᴴ * U = 1) (lam : Fin c → ℝ)
    (hpos : ∀ i, 0 ≤ lam i) (hanti : ∀ i j, i ≤ j → lam j ≤ lam i) {s : ℕ} (X : Matrix (Fin c) (Fin s) 𝕜)
    (hC : X * Xᴴ = M.pcaCorr U lam) (N : Matrix (Fin n) (Fin c) 𝕜) (hN : N * Nᴴ = 1) :
    M.frobSq (M.pcaMat h U * X) = ∑ i : Fin n, lam (Fin.castLE h i) ∧ M.frobSq (N * X) ≤ M.frobSq (M.pcaMat h U * X) :=
  ⟨M.pca_data_energy h U hU lam X hC, M.pca_data_optimal h U hU lam hpos hanti X hC N hN⟩
end PCA

/-! ### `WaveletOp` bookkeeping (`M.Wavelet.*`): predicted coefficient shapes, format conversions, stacking — the transform itself is a
parameter that returns blocks with the PyWavelets lengths -/

/-- the list `coefficients_shape` has one approximation entry and `2^d − 1` detail entries per level -/
theorem wavelet_coefficientsShape_length (L : ℕ) (domain : List ℕ) (level : ℕ) :
    (M.Wavelet.coefficientsShape L domain level).length = if level = 0 then 1 else 1 + level * (2 ^ domain.length - 1) :=
  M.Wavelet.coefficientsShape_length L domain level

/-- the predicted block sizes are exactly the sizes of a transform that follows the PyWavelets length rule, and the per-level shape
of the model is the one computed by the current source (translated on this run) -/
theorem wavelet_shapes_match (L : ℕ) (domain : List ℕ) (level : ℕ) :
    M.Wavelet.formatND (M.Wavelet.nestedSizes L domain level) = (M.Wavelet.coefficientsShape L domain level).map M.Wavelet.shapeSize :=
  M.Wavelet.formatND_nestedSizes L domain level
theorem wavelet_levelShape_src (L : ℕ) (hL : L % 2 = 0) (hL0 : 0 < L) (shape : List ℕ) :
    M.Wavelet.levelShape L shape = shape.map (fun (n : ℕ) => (M.Src.wavelet_level_shape (n : ℤ) (L : ℤ)).toNat) :=
  M.Wavelet.levelShape_eq_src_map L hL hL0 shape

/-- forward's bookkeeping (format, stack) is inverted exactly by adjoint's (unstack by the predicted shapes, undo format), in both
directions — for every dimension, wavelet length, level and coefficient values -/
theorem wavelet_bookkeeping_roundtrip {K : Type} (L : ℕ) (domain : List ℕ) (level : ℕ) (c : List K × List (List (List K)))
    (hd : domain ≠ []) (hc : (c.1.length, c.2.map (fun t => t.map List.length)) = M.Wavelet.nestedSizes L domain level) :
    (M.Wavelet.unstack (M.Wavelet.coefficientsShape L domain level) (M.Wavelet.stack (M.Wavelet.formatND c))).bind
        (M.Wavelet.undoFormatND (M.Wavelet.nDirections domain.length)) = some c :=
  M.Wavelet.bookkeeping_roundtrip_pywt L domain level c hd hc
theorem wavelet_bookkeeping_roundtrip_adjoint {K : Type} (L : ℕ) (domain : List ℕ) (level : ℕ) (v : List K) (bs : List (List K))
    (c : List K × List (List (List K))) (h1 : M.Wavelet.unstack (M.Wavelet.coefficientsShape L domain level) v = some bs)
    (h2 : M.Wavelet.undoFormatND (M.Wavelet.nDirections domain.length) bs = some c) :
    M.Wavelet.stack (M.Wavelet.formatND c) = v :=
  M.Wavelet.bookkeeping_roundtrip_adjoint L domain level v bs c h1 h2

end C09
