import Mrpro.Model.Functional
import Mrpro.Lemmas.FunctionalL
import Mrpro.Lemmas.SrcProxL
/-! # C08 — functionals evaluate their definition and prox is the true minimiser

Per-element statements over any linearly ordered field (the tensor prox is the element-wise prox
because the objective is a separable sum: `sum_separable_argmin`).  `n` is the `divide_by_n`
divisor (`N = ∏ shape[dim]`, or 1), `w` the weight, `t` the target. -/
namespace C08
open M
variable {K : Type} [Field K] [LinearOrder K] [IsStrictOrderedRing K]

/-- the model's `absK`, `reluK`, `minK` are the usual `|·|`, `max · 0`, `min` -/
theorem absK_eq_abs (x : K) : absK x = |x| := M.absK_eq_abs x
theorem reluK_eq_max (x : K) : reluK x = max x 0 := M.reluK_eq_max x
theorem minK_eq_min (a b : K) : minK a b = min a b := M.minK_eq_min a b

/-- soft-thresholding is the global minimiser of `τ|p| + ½(d − p)²` -/
theorem softThr_argmin (d τ p : K) (hτ : 0 ≤ τ) :
    τ * |softThr d τ| + (d - softThr d τ) ^ 2 / 2 ≤ τ * |p| + (d - p) ^ 2 / 2 := M.softThr_argmin d τ p hτ

/-- `L1Norm.prox` (and each real/imaginary channel of `L1NormViewAsReal.prox`) is the global
minimiser of `σ·|w(p − t)|/n + ½(x − p)²`, for every weight, target, `σ ≥ 0`, divisor `n > 0` -/
theorem l1Prox_argmin (w σ n t x p : K) (hσ : 0 ≤ σ) (hn : 0 < n) :
    σ * (l1ValEl w t (l1ProxEl w σ n t x) / n) + (x - l1ProxEl w σ n t x) ^ 2 / 2
      ≤ σ * (l1ValEl w t p / n) + (x - p) ^ 2 / 2 := M.l1Prox_argmin w σ n t x p hσ hn

/-- `L2NormSquared.prox` / `MSE.prox` is the global minimiser of `σ·|w(p − t)|²/n + ½(x − p)²` -/
theorem l2Prox_argmin (w σ n t x p : K) (hσ : 0 ≤ σ) (hn : 0 < n) :
    σ * (l2ValEl w t (l2ProxEl w σ n t x) / n) + (x - l2ProxEl w σ n t x) ^ 2 / 2
      ≤ σ * (l2ValEl w t p / n) + (x - p) ^ 2 / 2 := M.l2Prox_argmin w σ n t x p hσ hn

/-- element-wise minimisers minimise a separable sum: the tensor prox is the argmin for every
`dim` subset, batch layout and broadcast weight -/
theorem sum_separable_argmin {ι : Type} (s : Finset ι) (g : ι → K → K) (p q : ι → K)
    (h : ∀ i ∈ s, g i (p i) ≤ g i (q i)) : s.sum (fun i => g i (p i)) ≤ s.sum (fun i => g i (q i)) :=
  Finset.sum_le_sum h

/-- Moreau's identity `x = prox_{σf}(x) + σ·prox_{f*/σ}(x/σ)` for the closed-form conjugate proxes -/
theorem moreau_l1 (w σ n t x : K) (hσ : 0 < σ) (hn : 0 < n) :
    x = l1ProxEl w σ n t x + σ * l1ConjProxEl w (1 / σ) n t (x / σ) := M.moreau_l1 w σ n t x hσ hn
theorem moreau_l2 (w σ n t x : K) (hσ : 0 < σ) (hn : 0 < n) :
    x = l2ProxEl w σ n t x + σ * l2ConjProxEl w (1 / σ) n t (x / σ) := M.moreau_l2 w σ n t x hσ hn
/-! ### Tie to the source (regenerated on every run): the per-element formulas of `L1Norm.prox`, `L1Norm.prox_convex_conj`,
`L2NormSquared.prox` and `L2NormSquared.prox_convex_conj` *as they stand in `/repo` now* (`Mrpro/Gen/Src.lean`; argument order of first
use in the source) are the model functions — and therefore are the global minimisers and satisfy Moreau's identity themselves. -/
theorem src_l1_prox (w σ n t x : K) : M.Src.prox_l1_prox x t w σ n = l1ProxEl w σ n t x := M.SrcL.prox_l1_eq w σ n t x
theorem src_l1_prox_conj (w σ n t x : K) : M.Src.prox_l1_prox_conj x σ t w n = l1ConjProxEl w σ n t x := M.SrcL.prox_l1_conj_eq w σ n t x
theorem src_l2_prox (w σ n t x : K) : M.Src.prox_l2_prox w σ n x t = l2ProxEl w σ n t x := M.SrcL.prox_l2_eq w σ n t x
theorem src_l2_prox_conj (w σ n t x : K) : M.Src.prox_l2_prox_conj w n x σ t = l2ConjProxEl w σ n t x := M.SrcL.prox_l2_conj_eq w σ n t x
/-- the formula in the source of `L1Norm.prox` is the global minimiser … -/
theorem src_l1_prox_argmin (w σ n t x p : K) (hσ : 0 ≤ σ) (hn : 0 < n) :
    σ * (l1ValEl w t (M.Src.prox_l1_prox x t w σ n) / n) + (x - M.Src.prox_l1_prox x t w σ n) ^ 2 / 2
      ≤ σ * (l1ValEl w t p / n) + (x - p) ^ 2 / 2 := by
  rw [src_l1_prox]; exact l1Prox_argmin w σ n t x p hσ hn
/-- … so is the one of `L2NormSquared.prox` … -/
theorem src_l2_prox_argmin (w σ n t x p : K) (hσ : 0 ≤ σ) (hn : 0 < n) :
    σ * (l2ValEl w t (M.Src.prox_l2_prox w σ n x t) / n) + (x - M.Src.prox_l2_prox w σ n x t) ^ 2 / 2
      ≤ σ * (l2ValEl w t p / n) + (x - p) ^ 2 / 2 := by
  rw [src_l2_prox]; exact l2Prox_argmin w σ n t x p hσ hn
/-- … and the source formulas of prox and conjugate prox satisfy Moreau's identity with each other -/
theorem src_moreau_l1 (w σ n t x : K) (hσ : 0 < σ) (hn : 0 < n) :
    x = M.Src.prox_l1_prox x t w σ n + σ * M.Src.prox_l1_prox_conj (x / σ) (1 / σ) t w n := by
  rw [src_l1_prox, src_l1_prox_conj]; exact moreau_l1 w σ n t x hσ hn
theorem src_moreau_l2 (w σ n t x : K) (hσ : 0 < σ) (hn : 0 < n) :
    x = M.Src.prox_l2_prox w σ n x t + σ * M.Src.prox_l2_prox_conj w n (x / σ) (1 / σ) t := by
  rw [src_l2_prox, src_l2_prox_conj]; exact moreau_l2 w σ n t x hσ hn
/-- the per-element values in the source of `L1Norm.forward` / `L2NormSquared.forward` (`value = …`; the `mean` / `sum` over `dim` that
follows is pinned as source text by the translator and modelled by `funForward`) are `|w(x − t)|` and `|w(x − t)|²` … -/
theorem src_l1_value (w t x : K) : M.Src.prox_l1_value w x t = l1ValEl w t x := M.SrcL.value_l1_eq w t x
theorem src_l2_value (w t x : K) : M.Src.prox_l2_value w x t = l2ValEl w t x := M.SrcL.value_l2_eq w t x
/-- … so the minimiser statement holds entirely in terms of what the source contains: the `prox` formula of the source minimises
`σ·value/n + ½(x − p)²` with the `value` formula of the source, for every weight, target, `σ ≥ 0` and divisor `n > 0` -/
theorem src_l1_argmin_closed (w σ n t x p : K) (hσ : 0 ≤ σ) (hn : 0 < n) :
    σ * (M.Src.prox_l1_value w (M.Src.prox_l1_prox x t w σ n) t / n) + (x - M.Src.prox_l1_prox x t w σ n) ^ 2 / 2
      ≤ σ * (M.Src.prox_l1_value w p t / n) + (x - p) ^ 2 / 2 := by
  rw [src_l1_value, src_l1_value]; exact src_l1_prox_argmin w σ n t x p hσ hn
theorem src_l2_argmin_closed (w σ n t x p : K) (hσ : 0 ≤ σ) (hn : 0 < n) :
    σ * (M.Src.prox_l2_value w (M.Src.prox_l2_prox w σ n x t) t / n) + (x - M.Src.prox_l2_prox w σ n x t) ^ 2 / 2
      ≤ σ * (M.Src.prox_l2_value w p t / n) + (x - p) ^ 2 / 2 := by
  rw [src_l2_value, src_l2_value]; exact src_l2_prox_argmin w σ n t x p hσ hn

example : M.Src.prox_l1_prox (5 : Rat) 1 2 1 1 = 3 ∧ M.Src.prox_l2_prox (1 : Rat) 1 1 6 0 = 2 := by decide +kernel

/-- the generic fallback *is* Moreau's identity for any prox (used by `L1NormViewAsReal`) -/
theorem moreau_generic (prox : K → K → K) (σ x : K) (hσ : 0 < σ) :
    x = prox x σ + σ * genericConjProx prox (1 / σ) (x / σ) := M.moreau_generic prox σ x hσ
theorem moreau_zero (σ x : K) (hσ : 0 < σ) : x = x + σ * zeroConjProxEl (1 / σ) (x / σ) :=
  M.moreau_zero σ x hσ

/-- scaling a functional by `α ≥ 0`: `prox_{σ(αf)} = prox_{(σα) f}` (what `ScaledProximableFunctional.prox`
forwards) agrees with scaling the weight -/
theorem scaled_prox_l1 (α w σ n t x : K) (hα : 0 ≤ α) :
    l1ProxEl (α * w) σ n t x = l1ProxEl w (σ * α) n t x := M.scaled_prox_l1 α w σ n t x hα
/-- … and `prox_{σ(αf)*}(x) = α·prox_{(σ/α) f*}(x/α)` (what `prox_convex_conj` forwards), `α > 0` -/
theorem scaled_conj_l1 (α w σ n t x : K) (hα : 0 < α) (hn : 0 < n) :
    α * l1ConjProxEl w (σ / α) n t (x / α) = l1ConjProxEl (α * w) σ n t x := M.scaled_conj_l1 α w σ n t x hα hn

/-- complex data (modulus): block soft-thresholding `sgn(d)·relu(|d| − τ)` is the global minimiser of
`τ‖p‖ + ½‖d − p‖²` in every real inner-product space (ℂ = ℝ², any dimension) -/
theorem blockSoftThr_argmin {E : Type} [NormedAddCommGroup E] [InnerProductSpace ℝ E] (d q : E) (τ : ℝ) (hτ : 0 ≤ τ) :
    let p : E := if ‖d‖ ≤ τ then 0 else (1 - τ / ‖d‖) • d
    τ * ‖p‖ + ‖d - p‖ ^ 2 / 2 ≤ τ * ‖q‖ + ‖d - q‖ ^ 2 / 2 := M.blockSoftThr_argmin d q τ hτ

/-- non-vacuity -/
example : (0 : ℚ) ≤ 1 / 2 ∧ (0 : ℚ) < 3 := by norm_num

end C08
