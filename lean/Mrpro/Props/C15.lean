import Mrpro.Model.Load
import Mrpro.Lemmas.SrcL
import Mrpro.Model.KDataOps
import Mrpro.Lemmas.KDataOpsL
/-! # C15 — re-organising k-space data keeps every sample with its location and header

Data, trajectory and header are three arrays over the same `(other, k2, k1)` grid and each
transformation applies one index map to all three.  *Naturality* (`transform (map f g) =
map f (transform g)`) is the pairing statement: if the source arrays are paired position by
position (all three are images `map dataOf g`, `map trajOf g`, `map headerOf g` of one grid of
readout identities), so are the results — for every grid size, every index argument and, by
composition, every sequence of transformations. -/
namespace C15
open M M.Grid
variable {α β : Type}

theorem splitK1_natural (f : α → β) (g : Grid α) (sidx : List (List Nat)) :
    splitK1 (map f g) sidx = map f (splitK1 g sidx) := M.splitK1_natural f g sidx
theorem splitK2_natural (f : α → β) (g : Grid α) (sidx : List (List Nat)) :
    splitK2 (map f g) sidx = map f (splitK2 g sidx) := M.splitK2_natural f g sidx
theorem selectOther_natural (f : α → β) (g : Grid α) (labelOf subset : List Nat) :
    selectOther (map f g) labelOf subset = map f (selectOther g labelOf subset) := M.selectOther_natural f g labelOf subset
theorem mergeK2K1_natural (f : α → β) (g : Grid α) : mergeK2K1 (map f g) = map f (mergeK2K1 g) := M.mergeK2K1_natural f g

/-- samples are only dropped or duplicated as the operation specifies: every readout of a result
comes from the source … -/
theorem splitK1_subset (g : Grid α) (sidx : List (List Nat)) (a : α) (h : a ∈ (splitK1 g sidx).toFlat) : a ∈ g.toFlat :=
  M.splitK1_subset g sidx a h
theorem splitK2_subset (g : Grid α) (sidx : List (List Nat)) (a : α) (h : a ∈ (splitK2 g sidx).toFlat) : a ∈ g.toFlat :=
  M.splitK2_subset g sidx a h
theorem selectOther_subset (g : Grid α) (labelOf subset : List Nat) (a : α) (h : a ∈ (selectOther g labelOf subset).toFlat) :
    a ∈ g.toFlat := M.selectOther_subset g labelOf subset a h
/-- … and merging k2 into k1 keeps exactly the same readouts in the same order -/
theorem mergeK2K1_flat (g : Grid α) : (mergeK2K1 g).toFlat = g.toFlat := M.mergeK2K1_flat g

/-- `split_idx`: the windows are `size` consecutive entries starting every `size − overlap` entries -/
theorem splitIdx_window (idx : List Nat) (size overlap : Nat) (s : Nat) (w : List Nat)
    (h : (splitIdx idx size overlap false)[s]? = some w) :
    w = (idx.drop (s * (size - overlap))).take size ∧ w.length = size := M.splitIdx_window idx size overlap s w h
/-- non-overlapping windows of a length dividing the axis cover every index exactly once -/
theorem splitIdx_partition (n size : Nat) (hs : 0 < size) (hd : size ∣ n) :
    (splitIdx (List.range n) size 0 false).flatten = List.range n := M.splitIdx_partition n size hs hd

/-- the new label has the shape of the result and numbers the blocks of every original `other` -/
theorem splitLabel_shape (nOther : Nat) (sidx : List (List Nat)) (k2 k1 : Nat) :
    (splitLabel nOther sidx k2 k1).length = nOther * sidx.length := M.splitLabel_shape nOther sidx k2 k1

/-- readout oversampling removal keeps `n_recon` samples inside the readout, and the window is *centred*: the centre sample
(index `n/2`, position 0 of the centred FFT convention) of the long readout is the centre sample of the short one -/
theorem cropRange_centre (nEnc nRecon : Nat) (h : nRecon ≤ nEnc) :
    (cropRange nEnc nRecon).2 - (cropRange nEnc nRecon).1 = nRecon ∧ (cropRange nEnc nRecon).2 ≤ nEnc
    ∧ nEnc / 2 - (cropRange nEnc nRecon).1 = nRecon / 2 ∧ (cropRange nEnc nRecon).1 ≤ nEnc / 2 := by
  unfold cropRange; simp only; omega

/-- hence cropping the Cartesian readout coordinate `j − n/2` to the window gives the readout coordinate of the short readout: the
cropped trajectory is the one the centred FFT of the new size refers to (data and trajectory stay paired) -/
theorem cropRange_traj (nEnc nRecon : Nat) (h : nRecon ≤ nEnc) (j : Nat) (hj : j < nRecon) :
    M.kfreq nEnc (nEnc / 2 : Nat) false ((cropRange nEnc nRecon).1 + j) = M.kfreq nRecon (nRecon / 2 : Nat) false j := by
  unfold cropRange M.kfreq
  simp only [Bool.false_eq_true, if_false]
  push_cast
  omega

/-- witness: the window of the pinned commit, `(nEnc − nRecon) // 2`, moved the centre for an even readout and an odd
reconstruction size (10 → 5: centre 5 ↦ 3 instead of 2) -/
theorem cropRangeShipped_moves_centre : 10 / 2 - (M.cropRangeShipped 10 5).1 ≠ 5 / 2 := by decide

/-! ### Tie to the source: integer code translated from `/repo` on this run -/

/-- `remove_readout_os`: the crop window computed by the current source is `cropRange` -/
theorem src_crop_readout (enc recon : Nat) (h : recon ≤ enc) :
    M.Src.crop_readout enc recon = (((M.cropRange enc recon).1 : Int), ((M.cropRange enc recon).2 : Int)) :=
  M.SrcL.crop_readout_eq enc recon h

end C15
