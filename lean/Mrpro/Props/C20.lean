import Mrpro.Lemmas.SrcL
import Mrpro.Model.Resample
import Mrpro.Lemmas.ResampleL
import Mrpro.Lemmas.PadCoordL
import Mrpro.Lemmas.FractionL
/-! # C20 — resampling operators interpolate and integrate as specified -/
namespace C20
open M

/-! ### support width of the slice profile (`SliceProjectionOp._find_width`) -/

/-- on any test grid, the mass of the profile strictly *before* the chosen left end is at most 1 % … -/
theorem findWidth_left_tail (prof : List Rat) (hnn : ∀ p ∈ prof, 0 ≤ p) (hpos : 0 < prof.foldl (· + ·) 0) :
    let total := prof.foldl (· + ·) 0
    let iL := argmaxFirst (((prefixSums prof).map (· / total)).map (fun c => decide (c > 1/100)))
    (prof.take iL).foldl (· + ·) 0 ≤ total / 100 := M.findWidth_left_tail prof hnn hpos
/-- … and the mass strictly *after* the chosen right end is below 1 % -/
theorem findWidth_right_tail (prof : List Rat) (hnn : ∀ p ∈ prof, 0 ≤ p) (hpos : 0 < prof.foldl (· + ·) 0) :
    let total := prof.foldl (· + ·) 0
    let iR := argmaxFirst (((prefixSums prof).map (· / total)).map (fun c => decide (c > 99/100)))
    total - (prof.take (iR + 1)).foldl (· + ·) 0 < total / 100 := M.findWidth_right_tail prof hnn hpos
/-- the returned half-width covers both ends: the ray `-w … w` contains every test position that
carries the central 98 % of the profile -/
theorem findWidth_covers (grid prof : List Rat) :
    let total := prof.foldl (· + ·) 0
    let cdf := (prefixSums prof).map (· / total)
    let l := grid.getD (argmaxFirst (cdf.map (fun c => decide (c > 1/100)))) 0
    let r := grid.getD (argmaxFirst (cdf.map (fun c => decide (c > 99/100)))) 0
    |l| < findWidthOn grid prof ∧ |r| < findWidthOn grid prof := M.findWidth_covers grid prof

/-- witness: on the test grid of the pinned commit (`arange(-m, m, m) = [-m, 0]`) the search returns
1 for every profile that is (nearly) zero at `-m`, whatever its width … -/
theorem findWidth_shipped_one (m : Nat) (p0 p1 : Rat) (h0 : 0 ≤ p0) (h1 : 0 < p1) (h : p0 * 100 ≤ p0 + p1) :
    findWidthOn (gridShipped m) [p0, p1] = 1 := M.findWidth_shipped_one m p0 p1 h0 h1 h
/-- … e.g. a rectangular profile of full width 6 in a volume of 8 voxels: width 1 instead of ≥ 3;
the half-voxel grid finds 4 -/
theorem findWidth_rect6 :
    findWidthOn (gridShipped 8) ((gridShipped 8).map (fun x => if |x| ≤ 3 then 1 else 0)) = 1 ∧
    findWidthOn (gridFine 8) ((gridFine 8).map (fun x => if |x| ≤ 3 then 1 else 0)) = 4 := by decide +kernel

/-- row normalisation: after `matrix *= fraction/(rowsum + ε)` a row sums to `fraction·s/(s+ε)`,
which lies in `[fraction·(1 − ε/s), fraction]` -/
theorem rowNorm_sum (f s ε : Rat) (ws : List Rat) (hs : ws.foldl (· + ·) 0 = s) :
    (ws.map (rowNorm f s ε)).foldl (· + ·) 0 = f * (s / (s + ε)) := M.rowNorm_sum f s ε ws hs
theorem rowNorm_bounds (f s ε : Rat) (hf : 0 ≤ f) (hs : 0 < s) (hε : 0 < ε) :
    f * (1 - ε / s) ≤ f * (s / (s + ε)) ∧ f * (s / (s + ε)) ≤ f := M.rowNorm_bounds f s ε hf hs hε

/-! ### interpolation rule (`grid_sample`, bilinear, zeros padding) -/

/-- pixel centres in normalised coordinates map to integer pixel coordinates (both conventions) -/
theorem unnorm_centre_false (n i : Nat) (hn : 0 < n) : unnorm false n ((2 * (i : Rat) + 1) / n - 1) = i :=
  M.unnorm_centre_false n i hn
theorem unnorm_centre_true (n i : Nat) (hn : 1 < n) : unnorm true n (2 * (i : Rat) / ((n : Rat) - 1) - 1) = i :=
  M.unnorm_centre_true n i hn
/-- sampling at a pixel centre returns the pixel: the identity grid gives the input back -/
theorem lerpAt_int (n : Nat) (img : Int → Rat) (i : Nat) (hi : i < n) : lerpAt n img (i : Rat) = img i :=
  M.lerpAt_int n img i hi
/-- interpolation weights are non-negative and sum to one -/
theorem lerpAt_convex (n : Nat) (img : Int → Rat) (c : Rat) :
    ∃ w : Rat, 0 ≤ w ∧ w < 1 ∧ lerpAt n img c = (1 - w) * pix n img c.floor + w * pix n img (c.floor + 1) :=
  M.lerpAt_convex n img c
/-- a linear ramp is reproduced exactly inside the image -/
theorem lerpAt_linear (n : Nat) (α β c : Rat) (h0 : 0 ≤ c) (h1 : c ≤ (n : Rat) - 1) :
    lerpAt n (fun i => α * i + β) c = α * c + β := M.lerpAt_linear n α β c h0 h1

/-! ### Tie to the source: integer code translated from `/repo` on this run -/

/-- `SliceProjectionOp.projection_matrix`: the output window is centred in the input volume -/
theorem src_sliceproj_start (nx ox ny oy : Nat) (hx : ox ≤ nx) (hy : oy ≤ ny) :
    M.Src.sliceproj_start nx ox ny oy = ((((nx - ox) / 2 : Nat) : Int), (((ny - oy) / 2 : Nat) : Int)) :=
  M.SrcL.sliceproj_start_eq nx ox ny oy hx hy

/-! ### padding modes of the grid sampler (coordinate maps applied after un-normalisation) -/

/-- `border` and `reflection` always sample inside the image … -/
theorem padCoord_range {mode : ℕ} (alignCorners : Bool) {n : ℕ} (hn : 0 < n) (c : ℚ) (hm : mode = 1 ∨ mode = 2) :
    0 ≤ M.padCoord mode alignCorners n c ∧ M.padCoord mode alignCorners n c ≤ (n : ℚ) - 1 :=
  M.padCoord_range alignCorners hn c hm

/-- … and no padding mode changes a location that is inside the image (both `align_corners` conventions, incl. `n = 1`
and the last pixel centre) -/
theorem padCoord_inside (mode : ℕ) (alignCorners : Bool) {n : ℕ} (hn : 0 < n) {c : ℚ} (h0 : 0 ≤ c) (h1 : c ≤ (n : ℚ) - 1) :
    M.padCoord mode alignCorners n c = c :=
  M.padCoord_inside mode alignCorners hn h0 h1

/-- `reflection` really reflects: symmetric about both edges of the reflection interval and periodic with twice its length -/
theorem reflectCoord_laws {tl th : ℤ} (h : tl < th) (c : ℚ) :
    M.reflectCoord tl th ((tl : ℚ) - c) = M.reflectCoord tl th c
    ∧ M.reflectCoord tl th ((th : ℚ) - c) = M.reflectCoord tl th c
    ∧ M.reflectCoord tl th (c + ((th : ℚ) - (tl : ℚ))) = M.reflectCoord tl th c
    ∧ ((tl : ℚ) / 2 ≤ M.reflectCoord tl th c ∧ M.reflectCoord tl th c ≤ (th : ℚ) / 2) :=
  ⟨M.reflectCoord_mirror tl th c, M.reflectCoord_mirror_high h c, M.reflectCoord_periodic h c, M.reflectCoord_range h c⟩

/-! ### the fraction of a slice pixel's support inside the volume (`fraction_in_view`) — zero padding -/

/-- **zero padding**: with the fraction in view (and ε = 0) the value of a slice pixel is the weighted sum over the voxels inside the
volume divided by the sum of ALL weights of its candidate points -/
theorem pixelValue_zero_padding (w : List Rat) (mask : List Bool) (v : List Rat)
    (hin : M.sumR (M.inView w mask) ≠ 0) (hall : M.sumR w ≠ 0) :
    M.pixelValue (M.fractionInView w mask) 0 w mask v
      = M.sumR (((M.inView w mask).zip v).map (fun p => p.1 * p.2)) / M.sumR w := M.pixelValue_zero_padding w mask v hin hall

/-- inside the volume the fraction is 1; for non-negative weights it lies in [0, 1] -/
theorem fractionInView_inside (w : List Rat) (mask : List Bool) (hlen : w.length = mask.length) (hall : ∀ b ∈ mask, b = true)
    (hs : M.sumR w ≠ 0) : M.fractionInView w mask = 1 := M.fractionInView_all_in w mask hlen hall hs
theorem fractionInView_range (w : List Rat) (mask : List Bool) (hw : ∀ x ∈ w, 0 ≤ x) (hs : 0 < M.sumR w) :
    0 ≤ M.fractionInView w mask ∧ M.fractionInView w mask ≤ 1 := M.fractionInView_range w mask hw hs

/-- **robust against rounding**: a further candidate outside the volume with weight δ only adds δ to the denominator -/
theorem fractionInView_extra_outside (w : List Rat) (mask : List Bool) (hlen : w.length = mask.length) (δ : Rat) :
    M.fractionInView (w ++ [δ]) (mask ++ [false]) = M.sumR (M.inView w mask) / (M.sumR w + δ) :=
  M.fractionInView_extra_outside w mask hlen δ

/-- witness of the repaired defect: the fraction as shipped counted candidate points - one outside the volume with a rounding-size
weight halved the row -/
theorem fractionInViewShipped_witness :
    M.fractionInViewShipped [1, 1 / 10000000] [true, false] = 1 / 2
      ∧ M.fractionInView [1, 1 / 10000000] [true, false] = 10000000 / 10000001 := M.fractionInViewShipped_witness

end C20
