import Mrpro.Model.Ops
namespace C01
end C01
