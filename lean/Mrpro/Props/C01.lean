import Mrpro.Lemmas.OpMatrixL
import Mrpro.Model.Ops
import Mrpro.Lemmas.Basic
import Mrpro.Lemmas.Adjoint
/-! # C01 — adjoint identity ⟨A u, v⟩ = ⟨u, Aᴴ v⟩

For each elementary operator the model has the *two code paths* of the library
(`forward`, `adjoint`).  Each theorem says: for every size / configuration and all `u`, `v`
over any commutative star ring (ℚ, ℝ, ℂ, Gaussian rationals …) the two code paths are adjoint.
Proofs of the statements are in `Mrpro/Lemmas/Adjoint.lean`; this file only states them. -/
namespace C01
open M

variable {K : Type} [CommRing K] [StarRing K]

/-- centred zero-padding / cropping: `zero_pad_or_crop(·, b)` and `zero_pad_or_crop(·, a)` are
adjoint for every pair of sizes (either may be the larger, either parity). -/
theorem padCrop_adjoint (a b : Nat) (x y : Nat → K) :
    inner b (padCrop a b x) y = inner a x (padCrop b a y) :=
  M.padCrop_adjoint a b x y

/-- gather by index and scatter-**add** by index are adjoint for *every* index map: repeated
samples, samples outside the grid (`none` / `≥ G`), any order. -/
theorem gather_scatterAdd_adjoint (S G : Nat) (idx : Nat → Option Nat) (x y : Nat → K) :
    inner S (gather G idx x) y = inner G x (scatterAdd S idx y) :=
  M.gather_scatterAdd_adjoint S G idx x y

/-- witness: last-write-wins scatter (the behaviour of `Tensor.scatter_`, shipped before the
`fix:` commit) is *not* the adjoint of gather as soon as a grid point is sampled twice. -/
theorem scatterLast_not_adjoint :
    ∃ (idx : Nat → Option Nat) (x y : Nat → Int),
      inner 2 (gather 1 idx x) y ≠ inner 1 x (scatterLast 2 idx y) :=
  M.scatterLast_not_adjoint

/-- 3-tap correlation with kernel `(k0,k1,k2)` and correlation with the flipped kernel are adjoint,
for zero and for circular boundary handling and every length `n ≥ 1`… (real kernels: `star k = k`). -/
theorem corr3_adjoint (circular : Bool) (k0 k1 k2 : K) (h0 : star k0 = k0) (h1 : star k1 = k1)
    (h2 : star k2 = k2) (n : Nat) (x y : Nat → K) :
    inner n (corr3 circular k0 k1 k2 n x) y = inner n x (corr3 circular k2 k1 k0 n y) :=
  M.corr3_adjoint circular k0 k1 k2 h0 h1 h2 n x y

/-- element-wise multiplication (density compensation) -/
theorem diagMul_adjoint (n : Nat) (d x y : Nat → K) :
    inner n (diagMul d x) y = inner n x (diagMulConj d y) :=
  M.diagMul_adjoint n d x y

/-- coil sensitivities: expand to coils / conj-weighted sum over coils -/
theorem sens_adjoint (coils n : Nat) (hn : 0 < n) (csm x y : Nat → K) :
    inner (coils * n) (sensFwd n csm x) y = inner n x (sensAdj coils n csm y) :=
  M.sens_adjoint coils n hn csm x y

/-- matrix–vector product (default `EinsumOp` rule) -/
theorem matVec_adjoint (m n : Nat) (A x y : Nat → K) :
    inner m (matVec n A x) y = inner n x (matVecH m n A y) :=
  M.matVec_adjoint m n A x y

/-- a permutation of entries (`RearrangeOp`) and its inverse -/
theorem permute_adjoint (n : Nat) (σ τ : Nat → Nat) (hσ : ∀ i, i < n → σ i < n) (hτ : ∀ i, i < n → τ i < n)
    (h1 : ∀ i, i < n → τ (σ i) = i) (h2 : ∀ i, i < n → σ (τ i) = i) (x y : Nat → K) :
    inner n (permute σ x) y = inner n x (permute τ y) :=
  M.permute_adjoint n σ τ hσ hτ h1 h2 x y

/-- `fftshift` and `ifftshift` are adjoint (inverse permutations), either parity -/
theorem fftshift_adjoint (n : Nat) (x y : Nat → K) :
    inner n (fftshift n x) y = inner n x (ifftshift n y) :=
  M.fftshift_adjoint n x y

/-- the DFT code path of `forward` and the inverse-DFT code path of `adjoint` are adjoint for every
twiddle table `w` and real normalisation constant `c`. -/
theorem dft_adjoint (n : Nat) (c : K) (hc : star c = c) (w : Nat → K) (x y : Nat → K) :
    inner n (dft n c w x) y = inner n x (idft n c w y) :=
  M.dft_adjoint n c hc w x y

/-- the centred transform of `FastFourierOp`: `fftshift ∘ fft ∘ ifftshift` vs `fftshift ∘ ifft ∘ ifftshift`
(the code uses the same shift order in both paths, which is right because `fftshift` and
`ifftshift` are mutually adjoint). -/
theorem centredDft_adjoint (n : Nat) (c : K) (hc : star c = c) (w : Nat → K) (x y : Nat → K) :
    inner n (centredDft n c (fun t => w t) x) y = inner n x (centredIdft n c (fun t => w t) y) :=
  M.centredDft_adjoint n c hc w x y

/-- lifting: if `(op, opH)` is an adjoint pair between lengths `n` and `m`, then applying them along one
axis of an N-D tensor `[outer, ·, inner]` is an adjoint pair — for every batch layout. -/
theorem applyAlong_adjoint (outer inner n m : Nat) (op opH : (Nat → K) → (Nat → K))
    (h : ∀ x y, M.inner m (op x) y = M.inner n x (opH y)) (x y : Nat → K) :
    M.inner (outer * m * inner) (applyAlong inner n m op x) y
      = M.inner (outer * n * inner) x (applyAlong inner m n opH y) :=
  M.applyAlong_adjoint outer inner n m op opH h x y

/-- non-vacuity: the hypotheses of `permute_adjoint` hold for a non-trivial permutation -/
example : ∃ σ τ : Nat → Nat, (∀ i, i < 3 → σ i < 3) ∧ (∀ i, i < 3 → τ (σ i) = i) ∧ σ 0 ≠ 0 :=
  ⟨fun i => (i + 1) % 3, fun i => (i + 2) % 3, by intro i _; show (i + 1) % 3 < 3; omega,
    by intro i h; show ((i + 1) % 3 + 2) % 3 = i; omega, by decide⟩

/-- adjoint identity for operator matrices (matrix stacking, `&`, `|`, `@`, `+`, scaling, `.H`, indexing of matrices of operators):
for every program the library accepts, `Σᵢ ⟨(A x)ᵢ, yᵢ⟩ = Σⱼ ⟨xⱼ, (Aᴴ y)ⱼ⟩`, given the identity for the leaf operators -/
theorem opmatrix_adjoint_identity {K : Type} [CommRing K] [StarRing K] [DecidableEq K] (n : Nat)
    (Lf La : Nat → (Nat → K) → (Nat → K)) (hf : ∀ i, M.IsLin' (Lf i)) (ha : ∀ i, M.IsLin' (La i))
    (hadj : ∀ i x y, M.inner n (Lf i x) y = M.inner n x (La i y))
    (e : M.MExpr K) (A : M.OpMat K) (h : M.buildM e = some A) (xs ys us vs : List (Nat → K))
    (hx : xs.length = A.ncols) (hy : ys.length = A.nrows) (hnd : A.ncols ≠ 0 ∨ A.nrows = 0)
    (hu : A.fwd Lf La xs = some us) (hv : A.adj Lf La ys = some vs) :
    M.innerL n us ys = M.innerL n xs vs :=
  M.buildM_adjoint Lf La n hadj hf ha e A h xs ys us vs hx hy hnd hu hv

end C01
