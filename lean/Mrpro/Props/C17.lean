import Mrpro.Lemmas.SrcSignalL
import Mrpro.Model.Signal
import Mrpro.Lemmas.SignalL
/-! # C17 — signal models match their closed forms; constraints are invertible and bounded

The models of `Mrpro/Model/Signal.lean` instantiated at ℝ (`Real.exp`, `Real.log`, …). -/
namespace C17
open M

/-! ### ConstraintsOp: strictly monotone, into the open interval, invertible — for all β > 0 -/

theorem sigmoid_strictMono (β : ℝ) (hβ : 0 < β) : StrictMono (sigmoidT β) := M.sigmoid_strictMono β hβ
theorem sigmoid_range (β x : ℝ) : 0 < sigmoidT β x ∧ sigmoidT β x < 1 := M.sigmoid_range β x
theorem softplus_strictMono (β : ℝ) (hβ : 0 < β) : StrictMono (softplusT β) := M.softplus_strictMono β hβ
theorem softplus_pos (β x : ℝ) (hβ : 0 < β) : 0 < softplusT β x := M.softplus_pos β x hβ

/-- two-sided bounds: strictly increasing map of ℝ into the open interval `(l, u)` -/
theorem two_sided (βs βp l u : ℝ) (hβ : 0 < βs) (hlu : l < u) :
    StrictMono (constrainFwd βs βp (.fin l) (.fin u)) ∧
    ∀ x, l < constrainFwd βs βp (.fin l) (.fin u) x ∧ constrainFwd βs βp (.fin l) (.fin u) x < u :=
  M.two_sided βs βp l u hβ hlu
/-- lower bound only (upper `None` or `+inf`) -/
theorem lower_only (βs βp l : ℝ) (hβ : 0 < βp) :
    StrictMono (constrainFwd βs βp (.fin l) .none) ∧ (∀ x, l < constrainFwd βs βp (.fin l) .none x) ∧
    constrainFwd βs βp (.fin l) .posInf = constrainFwd βs βp (.fin l) .none := M.lower_only βs βp l hβ
/-- upper bound only (lower `None` or `-inf`) -/
theorem upper_only (βs βp u : ℝ) (hβ : 0 < βp) :
    StrictMono (constrainFwd βs βp .none (.fin u)) ∧ (∀ x, constrainFwd βs βp .none (.fin u) x < u) ∧
    constrainFwd βs βp .negInf (.fin u) = constrainFwd βs βp .none (.fin u) := M.upper_only βs βp u hβ
/-- no finite bound (any mixture of `None`, `-inf`, `+inf`): identity -/
theorem unconstrained (βs βp x : ℝ) :
    constrainFwd βs βp .none .none x = x ∧ constrainFwd βs βp .negInf .none x = x ∧
    constrainFwd βs βp .none .posInf x = x ∧ constrainFwd βs βp .negInf .posInf x = x := ⟨rfl, rfl, rfl, rfl⟩

/-- `inverse` undoes `forward` for every bound combination … -/
theorem inverse_forward (βs βp : ℝ) (hs : 0 < βs) (hp : 0 < βp) (lb ub : Bound ℝ)
    (hlu : ∀ l u, lb = .fin l → ub = .fin u → l < u) (x : ℝ) :
    constrainInv βs βp lb ub (constrainFwd βs βp lb ub x) = x := M.inverse_forward βs βp hs hp lb ub hlu x
/-- … and `forward` undoes `inverse` on the admissible interval -/
theorem forward_inverse_two_sided (βs βp l u y : ℝ) (hs : 0 < βs) (hlu : l < u) (hy : l < y ∧ y < u) :
    constrainFwd βs βp (.fin l) (.fin u) (constrainInv βs βp (.fin l) (.fin u) y) = y :=
  M.forward_inverse_two_sided βs βp l u y hs hlu hy
theorem forward_inverse_lower (βs βp l y : ℝ) (hp : 0 < βp) (hy : l < y) :
    constrainFwd βs βp (.fin l) .none (constrainInv βs βp (.fin l) .none y) = y :=
  M.forward_inverse_lower βs βp l y hp hy
theorem forward_inverse_upper (βs βp u y : ℝ) (hp : 0 < βp) (hy : y < u) :
    constrainFwd βs βp .none (.fin u) (constrainInv βs βp .none (.fin u) y) = y :=
  M.forward_inverse_upper βs βp u y hp hy

/-- witness: the softplus inverse of the pinned commit returns `β·x` instead of `x` -/
theorem softplusInvShipped_wrong (β x : ℝ) (hβ : 0 < β) : softplusInvShipped β (softplusT β x) = β * x :=
  M.softplusInvShipped_wrong β x hβ

/-! ### signal models: autograd gradients must equal these analytic derivatives -/

theorem invRec_hasDerivAt_m0 (m0 t1 ti : ℝ) : HasDerivAt (fun m => invRec m t1 ti) (invRec_dm0 m0 t1 ti) m0 :=
  M.invRec_hasDerivAt_m0 m0 t1 ti
theorem invRec_hasDerivAt_t1 (m0 t1 ti : ℝ) (h : t1 ≠ 0) : HasDerivAt (fun t => invRec m0 t ti) (invRec_dt1 m0 t1 ti) t1 :=
  M.invRec_hasDerivAt_t1 m0 t1 ti h
theorem satRec_hasDerivAt_m0 (m0 t1 ti : ℝ) : HasDerivAt (fun m => satRec m t1 ti) (satRec_dm0 m0 t1 ti) m0 :=
  M.satRec_hasDerivAt_m0 m0 t1 ti
theorem satRec_hasDerivAt_t1 (m0 t1 ti : ℝ) (h : t1 ≠ 0) : HasDerivAt (fun t => satRec m0 t ti) (satRec_dt1 m0 t1 ti) t1 :=
  M.satRec_hasDerivAt_t1 m0 t1 ti h
theorem monoExp_hasDerivAt_m0 (m0 td t : ℝ) : HasDerivAt (fun m => monoExp m td t) (monoExp_dm0 m0 td t) m0 :=
  M.monoExp_hasDerivAt_m0 m0 td t
theorem monoExp_hasDerivAt_td (m0 td t : ℝ) (h : td ≠ 0) : HasDerivAt (fun d => monoExp m0 d t) (monoExp_dtd m0 td t) td :=
  M.monoExp_hasDerivAt_td m0 td t h
theorem molli_hasDerivAt_a (a c t1 ti : ℝ) : HasDerivAt (fun v => molli v c t1 ti) (molli_da a c t1 ti) a :=
  M.molli_hasDerivAt_a a c t1 ti
theorem molli_hasDerivAt_c (a c t1 ti : ℝ) : HasDerivAt (fun v => molli a v t1 ti) (molli_dc a c t1 ti) c :=
  M.molli_hasDerivAt_c a c t1 ti
theorem molli_hasDerivAt_t1 (a c t1 ti : ℝ) (h : t1 ≠ 0) : HasDerivAt (fun v => molli a c v ti) (molli_dt1 a c t1 ti) t1 :=
  M.molli_hasDerivAt_t1 a c t1 ti h

/-- limits documented for the models: value at `t = 0` -/
theorem invRec_at_zero (m0 t1 : ℝ) : invRec m0 t1 0 = -m0 := M.invRec_at_zero m0 t1
theorem satRec_at_zero (m0 t1 : ℝ) : satRec m0 t1 0 = 0 := M.satRec_at_zero m0 t1
theorem monoExp_at_zero (m0 td : ℝ) : monoExp m0 td 0 = m0 := M.monoExp_at_zero m0 td

/-! ### TransientSteadyStateWithPreparation, WASABI, WASABITI: the analytic partial derivatives evaluated by the driver
(`tss_d*`, `wasabi_d*`, `wasabiti_d*` in `Model/Signal.lean`) are the derivatives of the closed forms -/
theorem tss_hasDerivAt_m0 (m0 t1 alpha ts tr scal delay : ℝ) :
    HasDerivAt (fun m => tss m t1 alpha ts tr scal delay) (tss_dm0 m0 t1 alpha ts tr scal delay) m0 :=
  M.tss_hasDerivAt_m0 m0 t1 alpha ts tr scal delay
theorem tss_hasDerivAt_t1 (m0 t1 alpha ts tr scal delay : ℝ) (h : t1 ≠ 0)
    (hden : 1 - t1 * (Real.log (Real.cos alpha) / tr) ≠ 0) :
    HasDerivAt (fun t => tss m0 t alpha ts tr scal delay) (tss_dt1 m0 t1 alpha ts tr scal delay) t1 :=
  M.tss_hasDerivAt_t1 m0 t1 alpha ts tr scal delay h hden
theorem tss_hasDerivAt_alpha (m0 t1 alpha ts tr scal delay : ℝ) (hcos : Real.cos alpha ≠ 0)
    (hden : 1 - t1 * (Real.log (Real.cos alpha) / tr) ≠ 0) :
    HasDerivAt (fun a => tss m0 t1 a ts tr scal delay) (tss_dalpha m0 t1 alpha ts tr scal delay) alpha :=
  M.tss_hasDerivAt_alpha m0 t1 alpha ts tr scal delay hcos hden
/-- without preparation (scaling 1, no delay) the model is the plain approach to the steady state -/
theorem tss_no_preparation (m0 t1 alpha ts tr : ℝ) : tss m0 t1 alpha ts tr 1 0 =
    m0 / (1 - t1 * (Real.log (Real.cos alpha) / tr))
      + (m0 - m0 / (1 - t1 * (Real.log (Real.cos alpha) / tr))) * Real.exp (-ts * (1 / t1 - Real.log (Real.cos alpha) / tr)) :=
  M.tss_no_preparation m0 t1 alpha ts tr
theorem wasabi_hasDerivAt_b0 (b0 rb1 c d offset tp b1nom gamma : ℝ)
    (hx : tp * Real.sqrt ((b1nom * rb1 * gamma) ^ 2 + (offset - b0) ^ 2) ≠ 0) :
    HasDerivAt (fun b => wasabi b rb1 c d offset tp b1nom gamma) (wasabi_db0 b0 rb1 c d offset tp b1nom gamma) b0 :=
  M.wasabi_hasDerivAt_b0 b0 rb1 c d offset tp b1nom gamma hx
theorem wasabi_hasDerivAt_rb1 (b0 rb1 c d offset tp b1nom gamma : ℝ)
    (hx : tp * Real.sqrt ((b1nom * rb1 * gamma) ^ 2 + (offset - b0) ^ 2) ≠ 0) :
    HasDerivAt (fun r => wasabi b0 r c d offset tp b1nom gamma) (wasabi_drb1 b0 rb1 c d offset tp b1nom gamma) rb1 :=
  M.wasabi_hasDerivAt_rb1 b0 rb1 c d offset tp b1nom gamma hx
theorem wasabi_hasDerivAt_c (b0 rb1 c d offset tp b1nom gamma : ℝ) :
    HasDerivAt (fun v => wasabi b0 rb1 v d offset tp b1nom gamma) (wasabi_dc b0 rb1 c d offset tp b1nom gamma) c :=
  M.wasabi_hasDerivAt_c b0 rb1 c d offset tp b1nom gamma
theorem wasabi_hasDerivAt_d (b0 rb1 c d offset tp b1nom gamma : ℝ) :
    HasDerivAt (fun v => wasabi b0 rb1 c v offset tp b1nom gamma) (wasabi_dd b0 rb1 c d offset tp b1nom gamma) d :=
  M.wasabi_hasDerivAt_d b0 rb1 c d offset tp b1nom gamma
theorem wasabiti_hasDerivAt_b0 (b0 rb1 t1 offset trec tp b1nom gamma : ℝ)
    (hx : tp * Real.sqrt ((b1nom * rb1 * gamma) ^ 2 + (offset - b0) ^ 2) ≠ 0) :
    HasDerivAt (fun b => wasabiti b rb1 t1 offset trec tp b1nom gamma) (wasabiti_db0 b0 rb1 t1 offset trec tp b1nom gamma) b0 :=
  M.wasabiti_hasDerivAt_b0 b0 rb1 t1 offset trec tp b1nom gamma hx
theorem wasabiti_hasDerivAt_rb1 (b0 rb1 t1 offset trec tp b1nom gamma : ℝ)
    (hx : tp * Real.sqrt ((b1nom * rb1 * gamma) ^ 2 + (offset - b0) ^ 2) ≠ 0) :
    HasDerivAt (fun r => wasabiti b0 r t1 offset trec tp b1nom gamma) (wasabiti_drb1 b0 rb1 t1 offset trec tp b1nom gamma) rb1 :=
  M.wasabiti_hasDerivAt_rb1 b0 rb1 t1 offset trec tp b1nom gamma hx
theorem wasabiti_hasDerivAt_t1 (b0 rb1 t1 offset trec tp b1nom gamma : ℝ) (h : t1 ≠ 0) :
    HasDerivAt (fun t => wasabiti b0 rb1 t offset trec tp b1nom gamma) (wasabiti_dt1 b0 rb1 t1 offset trec tp b1nom gamma) t1 :=
  M.wasabiti_hasDerivAt_t1 b0 rb1 t1 offset trec tp b1nom gamma h

/-! ### Tie to the source: the `forward` of every signal model, translated from `/repo` on this run (element-wise), is the
model function the theorems above are about — for all real arguments -/
theorem src_invRec (m0 t1 ti : ℝ) : M.Src.sig_invRec m0 t1 ti = invRec m0 t1 ti := M.SrcL.sig_invRec_eq m0 t1 ti
theorem src_satRec (m0 t1 ti : ℝ) : M.Src.sig_satRec m0 t1 ti = satRec m0 t1 ti := M.SrcL.sig_satRec_eq m0 t1 ti
theorem src_monoExp (m0 td t : ℝ) : M.Src.sig_monoExp m0 td t = monoExp m0 td t := M.SrcL.sig_monoExp_eq m0 td t
theorem src_molli (a c t1 ti : ℝ) : M.Src.sig_molli a c t1 ti = molli a c t1 ti := M.SrcL.sig_molli_eq a c t1 ti
theorem src_tss (m0 t1 alpha ts tr scal delay : ℝ) :
    M.Src.sig_tss m0 t1 alpha ts tr scal delay = tss m0 t1 alpha ts tr scal delay := M.SrcL.sig_tss_eq m0 t1 alpha ts tr scal delay
theorem src_wasabi (b0 rb1 c d offset tp b1nom gamma : ℝ) :
    M.Src.sig_wasabi b0 rb1 c d offset tp b1nom gamma = wasabi b0 rb1 c d offset tp b1nom gamma :=
  M.SrcL.sig_wasabi_eq b0 rb1 c d offset tp b1nom gamma
theorem src_wasabiti (b0 rb1 t1 offset trec tp b1nom gamma : ℝ) :
    M.Src.sig_wasabiti b0 rb1 t1 offset trec tp b1nom gamma = wasabiti b0 rb1 t1 offset trec tp b1nom gamma :=
  M.SrcL.sig_wasabiti_eq b0 rb1 t1 offset trec tp b1nom gamma

/-- the four elementary maps of `ConstraintsOp` as coded (translated from `/repo` on this run) are the model functions -/
theorem src_constraint_maps (x β : ℝ) :
    M.Src.sig_c_sigmoid x β = sigmoidT β x ∧ M.Src.sig_c_sigmoid_inverse x β = sigmoidInvT β x
    ∧ M.Src.sig_c_softplus x β = softplusT β x ∧ M.Src.sig_c_softplus_inverse x β = softplusInvT β x :=
  ⟨M.SrcL.sig_c_sigmoid_eq x β, M.SrcL.sig_c_sigmoid_inverse_eq x β, M.SrcL.sig_c_softplus_eq x β, M.SrcL.sig_c_softplus_inverse_eq x β⟩

/-- the branches of `ConstraintsOp.forward` and `inverse` as coded (translated from `/repo` on this run; they call the generated
elementary maps) are `constrainFwd` / `constrainInv` for finite two-sided, lower-only, upper-only and absent bounds … -/
theorem src_constraint_forward (βs βp l u x : ℝ) :
    M.Src.constr_forward_both x l u βs = constrainFwd βs βp (.fin l) (.fin u) x ∧
    M.Src.constr_forward_lower x l βp = constrainFwd βs βp (.fin l) .none x ∧
    M.Src.constr_forward_upper x u βp = constrainFwd βs βp .none (.fin u) x ∧
    M.Src.constr_forward_none x = constrainFwd βs βp .none .none x := M.SrcL.constr_forward_eq βs βp l u x
theorem src_constraint_inverse (βs βp l u y : ℝ) :
    M.Src.constr_inverse_both y l u βs = constrainInv βs βp (.fin l) (.fin u) y ∧
    M.Src.constr_inverse_lower y l βp = constrainInv βs βp (.fin l) .none y ∧
    M.Src.constr_inverse_upper y u βp = constrainInv βs βp .none (.fin u) y ∧
    M.Src.constr_inverse_none y = constrainInv βs βp .none .none y := M.SrcL.constr_inverse_eq βs βp l u y

end C17
