import Mrpro.Lemmas.Dcf2dL
import Mrpro.Model.Dcf
import Mrpro.Lemmas.DcfL
import Mrpro.Lemmas.DcfLayoutL
/-! # C16 — Voronoi density compensation has the invariances of cell volumes (1-D part)

`dcf1d` is the model of `dcf_1d`.  In two and three dimensions the cell volumes come from qhull
(a parameter); there the same invariances are checked on the real code only. -/
namespace C16
open M

/-- equivariant to any permutation of the sample points: sample `x` gets the same weight wherever it stands -/
theorem dcf1d_perm_equivariant (xs ys : List Rat) (h : xs.Perm ys) :
    ∃ w : Rat → Rat, dcf1d xs = xs.map w ∧ dcf1d ys = ys.map w := M.dcf1d_perm_equivariant xs ys h

/-- scaling k-space by `a ≠ 0` scales every weight by `|a|` — as soon as there are two distinct
positions (with a single position there is no cell: the code returns weight 1, which cannot scale) -/
theorem dcf1d_scale (xs : List Rat) (a : Rat) (ha : a ≠ 0) (h2 : 2 ≤ (sortedUnique xs).length) :
    dcf1d (xs.map (a * ·)) = (dcf1d xs).map (|a| * ·) := M.dcf1d_scale_of_two_le xs a ha h2
/-- the hypothesis is needed: a single sample keeps weight 1 under scaling (domain limit of the property:
the cell of a lone sample is unbounded) -/
theorem dcf1d_scale_single_point_fails :
    dcf1d (([0] : List Rat).map ((2 : Rat) * ·)) ≠ (dcf1d [0]).map (|(2 : Rat)| * ·) := M.dcf1d_scale_counterexample

/-- translation invariance -/
theorem dcf1d_translate (xs : List Rat) (t : Rat) : dcf1d (xs.map (· + t)) = dcf1d xs := M.dcf1d_translate xs t

/-- coincident samples share their cell equally: `m` samples at `x` get `width(x)/m` each -/
theorem dcf1d_duplicates_share (xs : List Rat) (i : Nat) (hi : i < xs.length) :
    (dcf1d xs)[i]'(by simp [dcf1d]; exact hi) * ((xs.filter (· == xs[i])).length : Rat)
      = cellWidth (sortedUnique xs) ((sortedUnique xs).idxOf xs[i]) := M.dcf1d_duplicates_share xs i hi

/-- weights are positive as soon as there are two distinct positions -/
theorem dcf1d_positive (xs : List Rat) (h2 : 2 ≤ (sortedUnique xs).length) : ∀ w ∈ dcf1d xs, 0 < w := M.dcf1d_positive xs h2

/-- on a uniform grid of spacing `h` every weight (interior and edges) is `h` -/
theorem dcf1d_uniform (n : Nat) (x0 h : Rat) (hh : 0 < h) (hn : 2 ≤ n) :
    dcf1d ((List.range n).map (fun i => x0 + h * i)) = List.replicate n h := M.dcf1d_uniform n x0 h hh hn

/-- separable layouts: the joint weight is the product of per-axis weights (`DcfData.from_traj_voronoi`
multiplies the 1-D factors) — per-sample statement -/
theorem separable_product (wx wy : Rat) (hx : 0 < wx) (hy : 0 < wy) : 0 < wx * wy := mul_pos hx hy

/-! ### 2-D / 3-D (`dcf_2d3d_voronoi`): everything around the Voronoi volumes — unique positions, outlier replacement, sharing among
coincident samples, mapping back to the samples (`M.dcfGlue`) — with the cell volumes of the unique positions as an oracle (qhull) -/

/-- a cell is split among its coincident samples: together they weigh the (possibly replaced) value of their position -/
theorem glue_duplicates_split {pts : List (List ℚ)} {vol w r : List ℚ} (hw : M.dcfGlue pts vol = some w)
    (hr : M.replaceOutliers vol = some r) {p : List ℚ} (hp : p ∈ pts) :
    (((pts.zip w).filter (fun q => q.1 == p)).map (·.2)).sum = r.getD ((M.uniquePts pts).idxOf p) 0 :=
  M.dcfGlue_duplicates_split hw hr hp

/-- permuting the samples permutes the weights (one weight function of the position serves both orders) -/
theorem glue_perm_equivariant (xs ys : List (List ℚ)) (h : xs.Perm ys) (vol : List ℚ) :
    ∃ W : Option (List ℚ → ℚ), M.dcfGlue xs vol = W.map (fun w => xs.map w) ∧ M.dcfGlue ys vol = W.map (fun w => ys.map w) :=
  M.dcfGlue_perm_equivariant xs ys h vol

/-- positive cell volumes give positive weights -/
theorem glue_pos {pts : List (List ℚ)} {vol w : List ℚ} (hw : M.dcfGlue pts vol = some w) (hv : ∀ v ∈ vol, 0 < v) :
    ∀ x ∈ w, 0 < x := M.dcfGlue_pos hw hv

/-- scaling k-space by `a ≠ 0` scales the weights by `|a|^d` whenever the volume oracle does (outlier rule and top-1 % average are
positively homogeneous) -/
theorem glue_scale (pts : List (List ℚ)) {a : ℚ} (ha : a ≠ 0) (d : ℕ) (V V' : List ℚ → ℚ)
    (hV : ∀ p ∈ pts, V' (p.map (a * ·)) = |a| ^ d * V p) :
    M.dcfGlue (pts.map (·.map (a * ·))) ((M.uniquePts (pts.map (·.map (a * ·)))).map V')
      = (M.dcfGlue pts ((M.uniquePts pts).map V)).map (fun w => w.map (|a| ^ d * ·)) :=
  M.dcfGlue_scale pts ha d V V' hV

/-- the weights are invariant under every injective map of the positions that leaves the volumes unchanged (translations, rotations,
reflections of the trajectory) -/
theorem glue_invariant (pts : List (List ℚ)) {f : List ℚ → List ℚ} (hf : Function.Injective f) (V V' : List ℚ → ℚ)
    (hV : ∀ p ∈ pts, V' (f p) = V p) :
    M.dcfGlue (pts.map f) ((M.uniquePts (pts.map f)).map V') = M.dcfGlue pts ((M.uniquePts pts).map V) :=
  M.dcfGlue_invariant pts hf V V' hV

/-! ### Partially broadcast trajectories (`DcfData.from_traj_voronoi`): the weights have the degree of a cell volume

`M.DcfLayout` models how the code decomposes a trajectory into 1-D factors and one joint tessellation; the harness checks that
the exponent measured on the real code (scaling k-space by 2) is `degree` for every layout it draws. -/

/-- **scaling with |a|^d for every layout** (all 512, kernel evaluation): every direction with an extent enters the product once -/
theorem layout_degree : ∀ a b c d e f g h i : Bool,
    M.DcfLayout.degree (M.DcfLayout.ofFlags a b c d e f g h i) = M.DcfLayout.dEnc (M.DcfLayout.ofFlags a b c d e f g h i) :=
  M.DcfLayout.degree_eq_dEnc
theorem layout_count : ∀ a b c d e f g h i : Bool, ∀ j : Fin 3,
    M.DcfLayout.count (M.DcfLayout.ofFlags a b c d e f g h i) j.val
      = (if (List.range 3).any (fun dd => M.DcfLayout.varies (M.DcfLayout.ofFlags a b c d e f g h i) j.val dd) then 1 else 0) :=
  M.DcfLayout.count_eq

/-- the decomposition as shipped had that degree exactly where it counted no direction twice (and never a smaller one); there
the repaired decomposition is the same -/
theorem layout_shipped_degree_iff : ∀ a b c d e f g h i : Bool,
    (M.DcfLayout.degreeShipped (M.DcfLayout.ofFlags a b c d e f g h i) = M.DcfLayout.dEnc (M.DcfLayout.ofFlags a b c d e f g h i))
      ↔ M.DcfLayout.wellFormedShipped (M.DcfLayout.ofFlags a b c d e f g h i) = true := M.DcfLayout.degreeShipped_eq_dEnc_iff
theorem layout_repair_conservative : ∀ a b c d e f g h i : Bool,
    M.DcfLayout.wellFormedShipped (M.DcfLayout.ofFlags a b c d e f g h i) = true →
      M.DcfLayout.degree (M.DcfLayout.ofFlags a b c d e f g h i) = M.DcfLayout.degreeShipped (M.DcfLayout.ofFlags a b c d e f g h i)
      ∧ ∀ j : Fin 3, M.DcfLayout.count (M.DcfLayout.ofFlags a b c d e f g h i) j.val = M.DcfLayout.countShipped (M.DcfLayout.ofFlags a b c d e f g h i) j.val :=
  M.DcfLayout.repaired_agrees_where_shipped_was_right

/-- witness of the repaired defect: a direction alone along one dimension that also varies along another one was counted twice -/
theorem layout_shipped_double_counted_witness :
    M.DcfLayout.degreeShipped (M.DcfLayout.ofFlags true false false false true true true false true) = 4
    ∧ M.DcfLayout.dEnc (M.DcfLayout.ofFlags true false false false true true true false true) = 3
    ∧ M.DcfLayout.degreeShipped (M.DcfLayout.ofFlags true false true false false false false false false) = 2
    ∧ M.DcfLayout.dEnc (M.DcfLayout.ofFlags true false true false false false false false false) = 1 := M.DcfLayout.shipped_double_counted_witness

end C16
