import Mrpro.Model.Dcf
import Mrpro.Lemmas.DcfL
/-! # C16 — Voronoi density compensation has the invariances of cell volumes (1-D part)

`dcf1d` is the model of `dcf_1d`.  In two and three dimensions the cell volumes come from qhull
(a parameter); there the same invariances are checked on the real code only. -/
namespace C16
open M

/-- equivariant to any permutation of the sample points: sample `x` gets the same weight wherever it stands -/
theorem dcf1d_perm_equivariant (xs ys : List Rat) (h : xs.Perm ys) :
    ∃ w : Rat → Rat, dcf1d xs = xs.map w ∧ dcf1d ys = ys.map w := M.dcf1d_perm_equivariant xs ys h

/-- scaling k-space by `a ≠ 0` scales every weight by `|a|` — as soon as there are two distinct
positions (with a single position there is no cell: the code returns weight 1, which cannot scale) -/
theorem dcf1d_scale (xs : List Rat) (a : Rat) (ha : a ≠ 0) (h2 : 2 ≤ (sortedUnique xs).length) :
    dcf1d (xs.map (a * ·)) = (dcf1d xs).map (|a| * ·) := M.dcf1d_scale_of_two_le xs a ha h2
/-- the hypothesis is needed: a single sample keeps weight 1 under scaling (domain limit of the property:
the cell of a lone sample is unbounded) -/
theorem dcf1d_scale_single_point_fails :
    dcf1d (([0] : List Rat).map ((2 : Rat) * ·)) ≠ (dcf1d [0]).map (|(2 : Rat)| * ·) := M.dcf1d_scale_counterexample

/-- translation invariance -/
theorem dcf1d_translate (xs : List Rat) (t : Rat) : dcf1d (xs.map (· + t)) = dcf1d xs := M.dcf1d_translate xs t

/-- coincident samples share their cell equally: `m` samples at `x` get `width(x)/m` each -/
theorem dcf1d_duplicates_share (xs : List Rat) (i : Nat) (hi : i < xs.length) :
    (dcf1d xs)[i]'(by simp [dcf1d]; exact hi) * ((xs.filter (· == xs[i])).length : Rat)
      = cellWidth (sortedUnique xs) ((sortedUnique xs).idxOf xs[i]) := M.dcf1d_duplicates_share xs i hi

/-- weights are positive as soon as there are two distinct positions -/
theorem dcf1d_positive (xs : List Rat) (h2 : 2 ≤ (sortedUnique xs).length) : ∀ w ∈ dcf1d xs, 0 < w := M.dcf1d_positive xs h2

/-- on a uniform grid of spacing `h` every weight (interior and edges) is `h` -/
theorem dcf1d_uniform (n : Nat) (x0 h : Rat) (hh : 0 < h) (hn : 2 ≤ n) :
    dcf1d ((List.range n).map (fun i => x0 + h * i)) = List.replicate n h := M.dcf1d_uniform n x0 h hh hn

/-- separable layouts: the joint weight is the product of per-axis weights (`DcfData.from_traj_voronoi`
multiplies the 1-D factors) — per-sample statement -/
theorem separable_product (wx wy : Rat) (hx : 0 < wx) (hy : 0 < wy) : 0 < wx * wy := mul_pos hx hy

end C16
