import Mrpro.Model.Ops
namespace C02
end C02
