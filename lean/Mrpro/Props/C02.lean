import Mrpro.Model.Ops
import Mrpro.Lemmas.Basic
import Mrpro.Lemmas.Linear
/-! # C02 — superposition: every model operator (both code paths) is linear

`IsLin op` : `op (a•x + b•y) = a•op x + b•op y` pointwise for all scalars and vectors — over any
commutative ring; `IsSemiLin` is not needed because the adjoint code paths conjugate the
*parameters* (csm, matrix, twiddles), never the data. -/
namespace C02
open M
variable {K : Type} [CommRing K] [StarRing K]

/-- pointwise superposition for maps between vectors -/
def IsLin (op : (Nat → K) → (Nat → K)) : Prop :=
  ∀ (a b : K) (x y : Nat → K) (i : Nat), op (fun t => a * x t + b * y t) i = a * op x i + b * op y i

theorem padCrop_linear (old new : Nat) : IsLin (padCrop (K := K) old new) := M.padCrop_linear old new
theorem gather_linear (G : Nat) (idx : Nat → Option Nat) : IsLin (gather (K := K) G idx) := M.gather_linear G idx
theorem scatterAdd_linear (S : Nat) (idx : Nat → Option Nat) : IsLin (scatterAdd (K := K) S idx) :=
  M.scatterAdd_linear S idx
theorem corr3_linear (c : Bool) (k0 k1 k2 : K) (n : Nat) : IsLin (corr3 c k0 k1 k2 n) := M.corr3_linear c k0 k1 k2 n
theorem diagMul_linear (d : Nat → K) : IsLin (diagMul d) := M.diagMul_linear d
theorem diagMulConj_linear (d : Nat → K) : IsLin (diagMulConj d) := M.diagMulConj_linear d
theorem sensFwd_linear (n : Nat) (csm : Nat → K) : IsLin (sensFwd n csm) := M.sensFwd_linear n csm
theorem sensAdj_linear (c n : Nat) (csm : Nat → K) : IsLin (sensAdj c n csm) := M.sensAdj_linear c n csm
theorem matVec_linear (n : Nat) (A : Nat → K) : IsLin (matVec n A) := M.matVec_linear n A
theorem matVecH_linear (m n : Nat) (A : Nat → K) : IsLin (matVecH m n A) := M.matVecH_linear m n A
theorem permute_linear (σ : Nat → Nat) : IsLin (permute (K := K) σ) := M.permute_linear σ
theorem fftshift_linear (n : Nat) : IsLin (fftshift (K := K) n) := M.fftshift_linear n
theorem ifftshift_linear (n : Nat) : IsLin (ifftshift (K := K) n) := M.ifftshift_linear n
theorem dft_linear (n : Nat) (c : K) (w : Nat → K) : IsLin (dft n c w) := M.dft_linear n c w
theorem idft_linear (n : Nat) (c : K) (w : Nat → K) : IsLin (idft n c w) := M.idft_linear n c w
theorem centredDft_linear (n : Nat) (c : K) (w : Nat → K) : IsLin (centredDft n c w) := M.centredDft_linear n c w
theorem centredIdft_linear (n : Nat) (c : K) (w : Nat → K) : IsLin (centredIdft n c w) := M.centredIdft_linear n c w

/-- composition of linear maps is linear (operator products, pipelines over several axes) -/
theorem comp_linear (f g : (Nat → K) → (Nat → K)) (hf : IsLin f) (hg : IsLin g) : IsLin (fun x => f (g x)) :=
  M.comp_linear f g hf hg
/-- sums and scalings of linear maps are linear -/
theorem add_linear (f g : (Nat → K) → (Nat → K)) (hf : IsLin f) (hg : IsLin g) :
    IsLin (fun x i => f x i + g x i) := M.add_linear f g hf hg
theorem smul_linear (c : K) (f : (Nat → K) → (Nat → K)) (hf : IsLin f) : IsLin (fun x i => c * f x i) :=
  M.smul_linear c f hf

/-- lifting a linear map to one axis of an N-D tensor keeps it linear (every batch layout) -/
theorem applyAlong_linear (inner n m : Nat) (op : (Nat → K) → (Nat → K)) (h : IsLin op) :
    IsLin (applyAlong inner n m op) := M.applyAlong_linear inner n m op h

/-- a linear map sends the zero vector to zero -/
theorem linear_zero (op : (Nat → K) → (Nat → K)) (h : IsLin op) (i : Nat) : op (fun _ => 0) i = 0 :=
  M.linear_zero op h i

/-- An operator that applies a *real-linear* map `R` separately to real and imaginary parts
(WaveletOp, GridSamplingOp, sparse projection with real weights) is complex-linear:
with `z = (re, im)`, `(a + i b)·z ↦ (a·re − b·im, a·im + b·re)` commutes with `R ⊕ R`. -/
theorem reim_split_complex_linear {V W : Type} [AddCommGroup V] [AddCommGroup W] [Module K V] [Module K W]
    (R : V →ₗ[K] W) (a b : K) (re im : V) :
    (R (a • re - b • im), R (a • im + b • re)) = (a • R re - b • R im, a • R im + b • R re) :=
  M.reim_split_complex_linear R a b re im

end C02
