import Mrpro.Lemmas.RotBatchL
import Mrpro.Lemmas.SrcRotL
import Mrpro.Lemmas.PowL
import Mrpro.Model.Rotation
import Mrpro.Lemmas.RotationL
/-! # C13 — rotations, proper and improper, obey the group laws of O(3)

Algebraic statements hold over every commutative ring for the *exact formulas of the code*
(`_compose_quaternions_single`, `_quaternion_to_matrix`, flag XOR, `det·R(q)`); unit-norm is a
hypothesis only where it is needed. -/
namespace C13
open M
variable {K : Type} [CommRing K]


/-- `matrix(p @ q) = matrix(p)·matrix(q)` for the quaternion part … -/
theorem toMat_mul (p q : Q K) : (Q.mul p q).toMat = Mat3.mul p.toMat q.toMat := M.toMat_mul p q
/-- … and for rotations with improper flags (flags XOR, determinants multiply) -/
theorem rot_toMat_mul (p q : Rot K) : (Rot.mul p q).toMat = Mat3.mul p.toMat q.toMat := M.rot_toMat_mul p q
/-- `(p @ q)(v) = p(q(v))` -/
theorem rot_apply_mul (p q : Rot K) (v : V3 K) : (Rot.mul p q).apply v = p.apply (q.apply v) := M.rot_apply_mul p q v

/-- `as_matrix` is orthogonal (up to the fourth power of the quaternion norm, which is 1) … -/
theorem toMat_orthogonal (q : Q K) :
    Mat3.mul q.toMat q.toMat.transpose = Mat3.smul (q.normSq * q.normSq) Mat3.one' := M.toMat_orthogonal q
/-- … with determinant `+1` / `−1` matching the improper flag -/
theorem rot_det (r : Rot K) : r.toMat.det = sgn r.improper * (r.q.normSq * r.q.normSq * r.q.normSq) := M.rot_det r

/-! ### Tie to the source (regenerated on every run): the component formulas of `_compose_quaternions_single` and
`_quaternion_to_matrix` *as they stand in `/repo` now* (`Mrpro/Gen/Src.lean`) are `Q.mul` and `Q.toMat` over every commutative ring —
so every theorem of this file about `Q.mul` / `Q.toMat` is a theorem about the formulas in the source. -/
theorem src_compose (p q : Q K) : M.Src.rot_compose p.a p.b p.c p.w q.a q.b q.c q.w = Q.mul p q := M.SrcL.rot_compose_eq p q
theorem src_to_matrix (q : Q K) : M.Src.rot_to_matrix q.a q.b q.c q.w = Q.toMat q := M.SrcL.rot_to_matrix_eq q
/-- … hence the source formulas themselves satisfy the homomorphism law, associativity and orthogonality -/
theorem src_matrix_of_product (p q : Q K) :
    (let r := M.Src.rot_compose p.a p.b p.c p.w q.a q.b q.c q.w; M.Src.rot_to_matrix r.a r.b r.c r.w)
      = Mat3.mul (M.Src.rot_to_matrix p.a p.b p.c p.w) (M.Src.rot_to_matrix q.a q.b q.c q.w) := by
  simp only [src_compose, src_to_matrix, toMat_mul]
example : M.Src.rot_compose (1 : Int) 2 3 4 5 6 7 8 = Q.mul ⟨1, 2, 3, 4⟩ ⟨5, 6, 7, 8⟩ ∧ (Q.mul (⟨1, 2, 3, 4⟩ : Q Int) ⟨5, 6, 7, 8⟩).w = -6 := by decide

/-- `Rotation.inv` as coded (sign vector read from the source, flag kept) is the conjugate quaternion of the model, so `p @ p.inv()` is
the identity for the source formulas: the product of the source applied to `q` and the inverse of the source has vector part `0` and
scalar part `|q|²` -/
theorem src_inv (q : Q K) : M.Src.rot_inv q.a q.b q.c q.w = Q.conj q := M.SrcL.rot_inv_eq q
theorem src_mul_inv (q : Q K) :
    (let i := M.Src.rot_inv q.a q.b q.c q.w; M.Src.rot_compose q.a q.b q.c q.w i.a i.b i.c i.w) = ⟨0, 0, 0, q.normSq⟩ := by
  simp only [src_inv, src_compose]
  simp only [Q.mul, Q.conj, Q.normSq, Q.mk.injEq]
  refine ⟨?_, ?_, ?_, ?_⟩ <;> ring

/-- composition is associative; the norm is multiplicative (so `@` keeps unit quaternions unit) -/
theorem mul_assoc (p q r : Q K) : Q.mul (Q.mul p q) r = Q.mul p (Q.mul q r) := M.qmul_assoc p q r
theorem normSq_mul (p q : Q K) : (Q.mul p q).normSq = p.normSq * q.normSq := M.normSq_mul p q
theorem rot_mul_assoc (p q r : Rot K) : Rot.mul (Rot.mul p q) r = Rot.mul p (Rot.mul q r) := M.rot_mul_assoc p q r

/-- `p @ p.inv()` is the identity (quaternion `(0,0,0,|p|²)`, flag cleared) -/
theorem mul_inv (r : Rot K) : Rot.mul r r.inv = ⟨⟨0, 0, 0, r.q.normSq⟩, false⟩ ∧ Rot.mul r.inv r = ⟨⟨0, 0, 0, r.q.normSq⟩, false⟩ :=
  M.rot_mul_inv r
/-- `p(v, inverse=True)` undoes `p(v)` -/
theorem applyInv_apply (r : Rot K) (v : V3 K) :
    r.applyInv (r.apply v) = ⟨(r.q.normSq * r.q.normSq) * v.x0, (r.q.normSq * r.q.normSq) * v.x1, (r.q.normSq * r.q.normSq) * v.x2⟩ :=
  M.applyInv_apply r v
/-- `q` and `−q` are the same rotation; `invert_axes` negates the matrix -/
theorem toMat_neg (q : Q K) : q.neg.toMat = q.toMat := M.toMat_neg q
theorem invertAxes_toMat (r : Rot K) : r.invertAxes.toMat = Mat3.smul (-1) r.toMat := M.invertAxes_toMat r

/-- the improper flag of `p ** n` is the n-fold XOR of the flag, for every integer `n` -/
theorem powFlag_eq_xorN (n : Int) (b : Bool) : powFlag n b = xorN n.natAbs b := M.powFlag_eq_xorN n b

/-- powers of a rotation about a fixed unit axis: composing `(sin(θ/2)u, cos(θ/2))` n times gives the
angle `nθ` — this is why scaling the rotation vector by `n` equals n-fold composition -/
theorem axisAngle_mul (u : V3 ℝ) (hu : u.x0 * u.x0 + u.x1 * u.x1 + u.x2 * u.x2 = 1) (α β : ℝ) :
    Q.mul (axisAngle u α) (axisAngle u β) = axisAngle u (α + β) := M.axisAngle_mul u hu α β
theorem axisAngle_pow (u : V3 ℝ) (hu : u.x0 * u.x0 + u.x1 * u.x1 + u.x2 * u.x2 = 1) (θ : ℝ) (n : Nat) :
    (fun p => Q.mul p (axisAngle u θ))^[n] ⟨0, 0, 0, 1⟩ = axisAngle u (n * θ) := M.axisAngle_pow u hu θ n

/-- non-vacuity: a unit axis exists -/
example : ((1 : ℝ) * 1 + 0 * 0 + 0 * 0 = 1) := by norm_num

/-! ### `p ** n` as coded: `from_rotvec(n * p.as_rotvec())` (`M.powQ`, over ℝ with the real transcendental functions) -/

/-- **`p ** n` is the n-fold composition** for every natural `n` (and `p ** 0` the identity), for every unit quaternion in
canonical form, at the level of quaternions … -/
theorem pow_nat (q : Q ℝ) (hq : q.normSq = 1) (hw : 0 ≤ q.w) (n : ℕ) :
    M.powQ (n : ℝ) q = (fun p => Q.mul p q)^[n] ⟨0, 0, 0, 1⟩ := M.powQ_nat q hq hw n
/-- … negative integers compose the inverse … -/
theorem pow_neg_nat (q : Q ℝ) (hq : q.normSq = 1) (hw : 0 ≤ q.w) (n : ℕ) :
    M.powQ (-(n : ℝ)) q = (fun p => Q.mul p q.conj)^[n] ⟨0, 0, 0, 1⟩ := M.powQ_int q hq hw n
/-- … and at the level of rotation matrices, also for a quaternion stored with negative scalar part (canonicalised first) -/
theorem pow_nat_toMat (q : Q ℝ) (hq : q.normSq = 1) (n : ℕ) :
    (0 ≤ q.w → (M.powQ (n : ℝ) q).toMat = (fun m => Mat3.mul m q.toMat)^[n] M.Mat3.one')
    ∧ (q.w ≤ 0 → (M.powQ (n : ℝ) q.neg).toMat = (fun m => Mat3.mul m q.toMat)^[n] M.Mat3.one') :=
  ⟨fun hw => M.powQ_nat_toMat q hq hw n, fun hw => M.powQ_nat_toMat_neg q hq hw n⟩
/-- fractional powers form a one-parameter subgroup: `p ** x @ p ** y = p ** (x + y)` for all real exponents -/
theorem pow_add (q : Q ℝ) (hq : q.normSq = 1) (x y : ℝ) : Q.mul (M.powQ x q) (M.powQ y q) = M.powQ (x + y) q :=
  M.powQ_add' q hq x y

/-! ### batches: quaternion tensor and improper-flag tensor edited separately (`M.RotBatch`) act element-wise -/
section Batches
variable {K : Type}

/-- item assignment equals element-wise assignment of the rotations (quaternion *and* flag: no stale flag can survive) -/
theorem batch_setitem (b v : M.RotBatch K) (idx : List Nat) (hv : v.WF) :
    (b.setIdx idx v).toList = M.writeList b.toList idx (M.bcast idx.length v.toList) := M.RotBatch.toList_setIdx b v idx hv

/-- indexing takes the addressed rotations (and raises for an index out of range) -/
theorem batch_getitem (b : M.RotBatch K) (idx : List Nat) : (b.getIdx? idx).map M.RotBatch.toList = M.gather? b.toList idx :=
  M.RotBatch.toList_getIdx? b idx

/-- concatenation, reshape and `invert_axes` act element-wise -/
theorem batch_concat (a b : M.RotBatch K) (ha : a.WF) : (a.concat b).toList = a.toList ++ b.toList := M.RotBatch.toList_concat a b ha
theorem batch_invertAxes (b : M.RotBatch K) : b.invertAxes.toList = b.toList.map M.Rot.invertAxes := M.RotBatch.toList_invertAxes b

/-- every history of edits (item assignment, component setters, axis inversion, reshape, append, composition with a single rotation)
on the two tensors equals the same history of element-wise edits on the list of rotations -/
theorem batch_edit_history [Add K] [Sub K] [Mul K] (es : List (M.Edit K)) (b : M.RotBatch K) (hb : b.WF) (hes : ∀ e ∈ es, e.WF) :
    (es.foldl M.Edit.apply b).toList = es.foldl M.Edit.applyList b.toList ∧ (es.foldl M.Edit.apply b).WF :=
  M.toList_foldl_edits es b hb hes
end Batches

end C13
