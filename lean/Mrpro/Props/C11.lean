import Mrpro.Lemmas.SrcL
import Mrpro.Model.Index
import Mrpro.Model.Vec
import Mathlib.Tactic.Ring
import Mathlib.Tactic.Linarith
/-! # C11 — equivalent axis specifications and batching give identical results

Property theorems only (helper lemmas live in `Mrpro/Lemmas`). -/
namespace C11
open M

/-- An index is accepted exactly on `[-ndim, ndim)` and normalised to `i mod ndim`
(Python's floor-mod), for every rank — including index 0. -/
theorem normIndex_eq_emod (ndim : Nat) (i : Int) :
    normIndex ndim i = if -(ndim : Int) ≤ i ∧ i < ndim then some (i % ndim).toNat else none := by
  unfold normIndex
  by_cases h1 : 0 ≤ i ∧ i < ndim
  · rw [if_pos h1, if_pos ⟨by omega, h1.2⟩, Int.emod_eq_of_lt h1.1 h1.2]
  · rw [if_neg h1]
    by_cases h2 : -(ndim : Int) ≤ i ∧ i < 0
    · rw [if_pos h2, if_pos ⟨h2.1, by omega⟩]
      have h3 : i % (ndim : Int) = i + ndim := by
        have : (i + ndim) % (ndim : Int) = i + ndim := Int.emod_eq_of_lt (by omega) (by omega)
        rw [← this, Int.add_emod_right]
      rw [h3]
    · rw [if_neg h2, if_neg (by omega)]

/-- a non-negative index and its negative alias name the same axis -/
theorem normIndex_neg_alias (ndim : Nat) (i : Nat) (h : i < ndim) :
    normIndex ndim ((i : Int) - ndim) = normIndex ndim i := by
  unfold normIndex
  rw [if_neg (by omega), if_pos (by omega), if_pos (by omega)]
  congr 1; omega

/-- index 0 is a valid axis of every tensor with at least one dimension -/
theorem normIndex_zero (ndim : Nat) (h : 0 < ndim) : normIndex ndim 0 = some 0 := by
  unfold normIndex; rw [if_pos (by omega)]; rfl

/-- the result is always a valid axis -/
theorem normIndex_lt (ndim : Nat) (i : Int) (n : Nat) (h : normIndex ndim i = some n) : n < ndim := by
  unfold normIndex at h
  split at h
  · injection h with h; omega
  · split at h
    · injection h with h; omega
    · exact absurd h (by simp)

/-- modules that normalise with `d % ndim` agree with `normalize_index` on the accepted range -/
theorem pyMod_eq_normIndex (ndim : Nat) (i : Int) (h : -(ndim : Int) ≤ i ∧ i < ndim) :
    normIndex ndim i = some (pyMod ndim i) := by
  rw [normIndex_eq_emod, if_pos h]
  unfold pyMod
  have hn : (0 : Int) ≤ (ndim : Int) := by omega
  rw [Int.fmod_eq_emod_of_nonneg _ hn]

/-- witness: the rule shipped in the pinned commit rejects index 0 (it is *not* the documented rule) -/
theorem normIndexShipped_rejects_zero : normIndexShipped 3 0 = none ∧ normIndex 3 0 = some 0 := by decide

/-- batching: applying an operator along an axis of a stacked tensor `[B, outer·n·inner]` equals
stacking the results of applying it to each element of the batch. -/
theorem applyAlong_stack {K : Type} (inner n m outer : Nat) (op : (Nat → K) → (Nat → K))
    (x : Nat → K) (b r : Nat) (hm : 0 < m) (hi : 0 < inner) :
    applyAlong inner n m op x (b * (outer * m * inner) + r)
      = applyAlong inner n m op (fun t => x (b * (outer * n * inner) + t)) r := by
  unfold applyAlong
  simp only
  have hmi : 0 < m * inner := Nat.mul_pos hm hi
  have e1 : (b * (outer * m * inner) + r) / (m * inner) = b * outer + r / (m * inner) := by
    have : b * (outer * m * inner) = (m * inner) * (b * outer) := by ring
    rw [this, Nat.mul_add_div hmi]
  have e2 : (b * (outer * m * inner) + r) / inner % m = r / inner % m := by
    have : b * (outer * m * inner) = inner * (b * outer * m) := by ring
    rw [this, Nat.mul_add_div hi, Nat.add_comm, Nat.add_mul_mod_self_right]
  have e3 : (b * (outer * m * inner) + r) % inner = r % inner := by
    have : b * (outer * m * inner) = inner * (b * outer * m) := by ring
    rw [this, Nat.mul_add_mod]
  rw [e1, e2, e3]
  congr 1
  funext t
  congr 1
  ring

/-- non-vacuity of the hypotheses of `applyAlong_stack` -/
example : (0 : Nat) < 3 ∧ (0 : Nat) < 4 := by decide

/-! ### Tie to the source: `normalize_index` as translated from `/repo` on this run -/

/-- the function `normalize_index` of the current source text (translated by `harness/translate_src.py`
into `M.Src.normalize_index`) is the model `normIndex`, for every rank and every integer index;
`none` is the `IndexError` branch -/
theorem src_normalize_index (ndim : Nat) (i : Int) :
    M.Src.normalize_index ndim i = (normIndex ndim i).map (fun k => (k : Int)) :=
  M.SrcL.normalize_index_eq ndim i

end C11
