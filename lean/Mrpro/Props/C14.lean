import Mrpro.Lemmas.SrcL
import Mrpro.Model.Load
import Mrpro.Lemmas.LoadL
import Mrpro.Lemmas.PulseqL
/-! # C14 — loading raw data is faithful to acquisition indices, not to file order -/
namespace C14
open M

/-- the stored order is a permutation of the acquisitions (nothing lost, nothing duplicated) that is
sorted by the index labels -/
theorem loadOrder_perm (l : List Acq) : (loadOrder l).Perm l := M.loadOrder_perm l
theorem loadOrder_sorted (l : List Acq) : (loadOrder l).Pairwise (fun a b => Acq.le a b = true) := M.loadOrder_sorted l

/-- **independent of the order in the file**: any two files containing the same acquisitions (with
pairwise different index tuples) load to the same sequence -/
theorem load_perm_invariant (l₁ l₂ : List Acq) (h : l₁.Perm l₂)
    (hkeys : (l₁.map (·.key)).Nodup) (hlen : ∀ a ∈ l₁, ∀ b ∈ l₁, a.key.length = b.key.length) :
    loadOrder l₁ = loadOrder l₂ := M.load_perm_invariant l₁ l₂ h hkeys hlen

/-- **independent of interleaved acquisitions removed by a filter**: filtering before or after sorting
gives the same sequence -/
theorem filter_commutes (l : List Acq) (p : Acq → Bool)
    (hkeys : (l.map (·.key)).Nodup) (hlen : ∀ a ∈ l, ∀ b ∈ l, a.key.length = b.key.length) :
    loadOrder (l.filter p) = (loadOrder l).filter p := M.filter_commutes l p hkeys hlen

/-- the position of a readout is its rank among the index tuples -/
theorem position_is_rank (l : List Acq) (a : Acq) (ha : a ∈ l)
    (hkeys : (l.map (·.key)).Nodup) (hlen : ∀ a ∈ l, ∀ b ∈ l, a.key.length = b.key.length) :
    (loadOrder l).idxOf a = (l.filter (fun b => Acq.le b a && b != a)).length := M.position_is_rank l a ha hkeys hlen

/-- generated constants: `k1` is the fastest label, then `k2`, then the `other` labels in their order -/
theorem sort_labels_order : Gen.kdimSortLabels = ["k1", "k2"] ++ Gen.otherLabels := by decide

/-- generated constants: every acquisition flag is a single bit, so the default filter removes exactly
the acquisitions carrying one of the listed flags … -/
theorem flags_single_bits : ∀ p ∈ Gen.acqFlagValues, p.2 = 0 ∨ isPow2 p.2 = true := by decide
/-- … and no other flag (first/last in slice, average, encode step, reversed readout, …) makes an
image acquisition disappear -/
theorem filter_keeps_other_flags :
    ∀ p ∈ Gen.acqFlagValues, p.1 ∉ Gen.defaultIgnoreFlags → isImage p.2 = true := by decide

/-- readout coordinates: sample `j` of a readout lies at `j − center_sample`; reversed readouts are
traversed backwards -/
theorem kfreq_formula (n : Nat) (c : Int) (j : Nat) (hj : j < n) :
    kfreq n c false j = j - c ∧ kfreq n c true j = kfreq n c false (n - 1 - j) := M.kfreq_formula n c j hj

/-! ### Tie to the source: integer code translated from `/repo` on this run -/

/-- `KData.from_file`: `(n_k1, n_k2)` computed by the current source from the unique acquisition
counts is `shapeKOf` … -/
theorem src_kdata_shape (a b : List Nat) (hb : b ≠ []) :
    M.Src.kdata_shape a.length (a.headD 0) (b.headD 0) b.length
      = (((M.shapeKOf a b).1 : Int), ((M.shapeKOf a b).2 : Int)) :=
  M.SrcL.kdata_shape_eq a b hb

/-- … which is what the model's `shapeK` uses -/
theorem shapeK_eq_shapeKOf (l : List M.Acq) :
    M.shapeK l = ((M.shapeKOf ((M.countsBy (fun a => a.key.drop 1) l).eraseDups)
        ((M.countsBy (fun a => a.key.drop 2) l).eraseDups)).2,
      (M.shapeKOf ((M.countsBy (fun a => a.key.drop 1) l).eraseDups)
        ((M.countsBy (fun a => a.key.drop 2) l).eraseDups)).1) :=
  M.SrcL.shapeK_eq l

/-! ### Radial phase encoding (`KTrajectoryRpe`) -/

/-- the k-space centre of every radial line is not shifted -/
theorem rpe_centre_not_shifted (shifts : List Rat) (centre : Int) (k1 k2 : Nat) (h : (k1 : Int) = centre) :
    M.rpeKrad shifts centre k1 k2 = 0 := M.rpeKrad_centre shifts centre k1 k2 h

/-- the shift of a line depends on its own index `k2` modulo the number of shifts only — not on which other lines
are in the file, not on the smallest `k2` present -/
theorem rpe_shift_by_line_index (shifts : List Rat) (centre : Int) (k1 k2 : Nat) :
    M.rpeKrad shifts centre k1 (k2 % shifts.length) = M.rpeKrad shifts centre k1 k2
    ∧ M.rpeKrad shifts centre k1 (k2 + shifts.length) = M.rpeKrad shifts centre k1 k2 :=
  ⟨M.rpeKrad_mod shifts centre k1 k2, M.rpeKrad_periodic shifts centre k1 k2⟩

/-- shifts in [0, 1) keep the samples of a line in acquisition order: shifted points never cross -/
theorem rpe_order_preserved (shifts : List Rat) (centre : Int) (k1 k1' k2 : Nat)
    (hs : ∀ s ∈ shifts, 0 ≤ s ∧ s < 1) (h : k1 < k1') :
    M.rpeKrad shifts centre k1 k2 < M.rpeKrad shifts centre k1' k2 :=
  M.rpeKrad_strictMono shifts centre k1 k1' k2 hs h

example : M.rpeKrad [0, 1/2, 1/4, 3/4] 2 3 5 = 3 / 2 ∧ M.rpeKrad [0, 1/2, 1/4, 3/4] 2 2 5 = 0 := by decide +kernel

/-! ### Pulseq trajectories (`KTrajectoryPulseq`): a readout lies at the sequence event it was computed from -/

/-- the rescaling expression and the "not encoded" threshold translated from the source are the model's, for all values
(and the translated expression does not depend on the extent of the other directions) -/
theorem pulseq_scale_is_source (x e km all : Rat) :
    M.Src.pulseq_scale x e km all = M.pulseqScale x e km ∧ M.Src.pulseq_threshold = M.pulseqThreshold :=
  ⟨M.src_pulseq_scale x e km all, M.src_pulseq_threshold⟩

/-- **Cartesian phase encoding**: a readout played out at phase-encoding step `i` of `n` (k-space position `d·(i − n/2)`,
any step size `d`, any order and repetition of the steps, step 0 present) is placed at exactly `i − n/2` — whatever the
extents of the other directions are, as long as this direction counts as encoded -/
theorem pulseq_cartesian_steps (n : Nat) (hn : 0 < n) (d : Rat) (hd : 0 < d) (all : Rat) (steps : List Nat)
    (h0 : 0 ∈ steps) (hlt : ∀ i ∈ steps, i < n) (hall : M.pulseqThreshold * all < d * (n : Rat) / 2) :
    M.pulseqAxis (steps.map (fun i : Nat => d * ((i : Rat) - (n : Rat) / 2))) n all
      = steps.map (fun i : Nat => (i : Rat) - (n : Rat) / 2) :=
  M.pulseqAxis_cartesian_steps n hn d hd all steps h0 hlt hall

/-- a direction is rescaled with its own extent only -/
theorem pulseq_direction_independent (k : List Rat) (enc : Nat) (a b : Rat)
    (ha : M.pulseqThreshold * a < M.maxAbs k) (hb : M.pulseqThreshold * b < M.maxAbs k) :
    M.pulseqAxis k enc a = M.pulseqAxis k enc b := M.pulseqAxis_indep k enc a b ha hb

/-- every position lies inside the encoding matrix, and the extent of an encoded direction is exactly `enc/2` -/
theorem pulseq_inside_matrix (k : List Rat) (enc : Nat) (all : Rat) (hall : 0 ≤ all) :
    (∀ y ∈ M.pulseqAxis k enc all, M.absR y ≤ (enc : Rat) / 2)
    ∧ (M.pulseqThreshold * all < M.maxAbs k → M.maxAbs (M.pulseqAxis k enc all) = (enc : Rat) / 2) :=
  ⟨M.pulseqAxis_abs_le k enc all hall, M.pulseqAxis_extent k enc all hall⟩

/-- a direction the sequence does not encode (numerical noise only) is exactly zero — never amplified -/
theorem pulseq_unencoded_zero (k : List Rat) (enc : Nat) (all : Rat) (h : M.maxAbs k ≤ M.pulseqThreshold * all) :
    M.pulseqAxis k enc all = k.map (fun _ => 0) := M.pulseqAxis_unencoded k enc all h

example : M.pulseqTraj [-16, -15, 15] [-30, 25, -30] [0, 1/1000000000, 0] 32 12 4
    = ([0, 0, 0], [-6, 5, -6], [-16, -15, 15]) := by decide +kernel

end C14
