import Mrpro.Model.MoveData
import Mrpro.Lemmas.MoveDataL
/-! # C18 — moving or converting data preserves content, dtype kind and aliasing rules -/
namespace C18
open M

/-- real tensors stay real, complex stay complex, integer/bool tensors keep their dtype — for every
requested floating or complex dtype -/
theorem kind_preserved (t d : DType) (ht : t.kind = .float ∨ t.kind = .complex) :
    (convertDType (some t) d).kind = d.kind := M.kind_preserved t d ht
theorem int_bool_unchanged (t d : DType) (hd : d.kind = .int ∨ d.kind = .bool) : convertDType (some t) d = d :=
  M.int_bool_unchanged t d hd
/-- the precision follows the request: real ↦ real part precision, complex ↦ twice that -/
theorem precision_rule (t d : DType) (ht : t.kind = .float) :
    (d.kind = .float → convertDType (some t) d = t) ∧ (d.kind = .complex → convertDType (some t) d = ⟨.complex, t.bits * 2⟩) :=
  M.precision_rule t d ht

/-- the conversion keeps the structure: same number of leaves, in the same field order -/
theorem leaves_length (fresh : Nat → Nat) (copy : Bool) (target : Option DType) (o : OTree) :
    (o.to fresh copy target).leaves.length = o.leaves.length := M.leaves_length fresh copy target o

/-- **aliasing is preserved**: two fields that referred to one and the same object in the source refer to one
object in the result, and (when the new identities are injective and disjoint from the old ones)
fields that were different objects stay different -/
theorem alias_preserved (fresh : Nat → Nat) (copy : Bool) (target : Option DType) (o : OTree) (i j : Nat)
    (hi : i < o.leaves.length) (hj : j < o.leaves.length)
    (hsame : o.leaves[i] = o.leaves[j]) :
    ((o.to fresh copy target).leaves[i]'(by rw [M.leaves_length]; exact hi)) =
      ((o.to fresh copy target).leaves[j]'(by rw [M.leaves_length]; exact hj)) :=
  M.alias_preserved fresh copy target o i j hi hj hsame

theorem distinct_preserved (fresh : Nat → Nat) (copy : Bool) (target : Option DType) (o : OTree) (i j : Nat)
    (hinj : Function.Injective fresh) (hdisj : ∀ a b, fresh a ≠ b ∨ ∀ p ∈ o.leaves, p.1 ≠ b)
    (hi : i < o.leaves.length) (hj : j < o.leaves.length)
    (hdiff : (o.leaves[i]).1 ≠ (o.leaves[j]).1) :
    ((o.to fresh copy target).leaves[i]'(by rw [M.leaves_length]; exact hi)).1 ≠
      ((o.to fresh copy target).leaves[j]'(by rw [M.leaves_length]; exact hj)).1 :=
  M.distinct_preserved fresh copy target o i j hinj hdisj hi hj hdiff

/-- **copy=True / clone()**: no tensor of the result is a tensor of the source -/
theorem copy_fresh (fresh : Nat → Nat) (target : Option DType) (o : OTree)
    (hdisj : ∀ a, ∀ p ∈ o.leaves, fresh a ≠ p.1) :
    ∀ q ∈ (o.to fresh true target).leaves, ∀ p ∈ o.leaves, q.1 ≠ p.1 := M.copy_fresh fresh target o hdisj

/-- without copy and without a dtype change nothing is converted: the result shares every tensor -/
theorem noop_shares (fresh : Nat → Nat) (o : OTree) : (o.to fresh false none).leaves = o.leaves := M.noop_shares fresh o

end C18
