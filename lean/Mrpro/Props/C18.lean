import Mrpro.Model.MoveData
import Mrpro.Lemmas.MoveDataL
import Mrpro.Lemmas.MoveApplyL
/-! # C18 — moving or converting data preserves content, dtype kind and aliasing rules -/
namespace C18
open M

/-- real tensors stay real, complex stay complex, integer/bool tensors keep their dtype — for every
requested floating or complex dtype -/
theorem kind_preserved (t d : DType) (ht : t.kind = .float ∨ t.kind = .complex) :
    (convertDType (some t) d).kind = d.kind := M.kind_preserved t d ht
theorem int_bool_unchanged (t d : DType) (hd : d.kind = .int ∨ d.kind = .bool) : convertDType (some t) d = d :=
  M.int_bool_unchanged t d hd
/-- the precision follows the request: real ↦ real part precision, complex ↦ twice that -/
theorem precision_rule (t d : DType) (ht : t.kind = .float) :
    (d.kind = .float → convertDType (some t) d = t) ∧ (d.kind = .complex → convertDType (some t) d = ⟨.complex, t.bits * 2⟩) :=
  M.precision_rule t d ht

/-- the conversion keeps the structure: same number of leaves, in the same field order -/
theorem leaves_length (fresh : Nat → Nat) (copy : Bool) (target : Option DType) (o : OTree) :
    (o.to fresh copy target).leaves.length = o.leaves.length := M.leaves_length fresh copy target o

/-- **aliasing is preserved**: two fields that referred to one and the same object in the source refer to one
object in the result, and (when the new identities are injective and disjoint from the old ones)
fields that were different objects stay different -/
theorem alias_preserved (fresh : Nat → Nat) (copy : Bool) (target : Option DType) (o : OTree) (i j : Nat)
    (hi : i < o.leaves.length) (hj : j < o.leaves.length)
    (hsame : o.leaves[i] = o.leaves[j]) :
    ((o.to fresh copy target).leaves[i]'(by rw [M.leaves_length]; exact hi)) =
      ((o.to fresh copy target).leaves[j]'(by rw [M.leaves_length]; exact hj)) :=
  M.alias_preserved fresh copy target o i j hi hj hsame

theorem distinct_preserved (fresh : Nat → Nat) (copy : Bool) (target : Option DType) (o : OTree) (i j : Nat)
    (hinj : Function.Injective fresh) (hdisj : ∀ a b, fresh a ≠ b ∨ ∀ p ∈ o.leaves, p.1 ≠ b)
    (hi : i < o.leaves.length) (hj : j < o.leaves.length)
    (hdiff : (o.leaves[i]).1 ≠ (o.leaves[j]).1) :
    ((o.to fresh copy target).leaves[i]'(by rw [M.leaves_length]; exact hi)).1 ≠
      ((o.to fresh copy target).leaves[j]'(by rw [M.leaves_length]; exact hj)).1 :=
  M.distinct_preserved fresh copy target o i j hinj hdisj hi hj hdiff

/-- **copy=True / clone()**: no tensor of the result is a tensor of the source -/
theorem copy_fresh (fresh : Nat → Nat) (target : Option DType) (o : OTree)
    (hdisj : ∀ a, ∀ p ∈ o.leaves, fresh a ≠ p.1) :
    ∀ q ∈ (o.to fresh true target).leaves, ∀ p ∈ o.leaves, q.1 ≠ p.1 := M.copy_fresh fresh target o hdisj

/-- without copy and without a dtype change nothing is converted: the result shares every tensor -/
theorem noop_shares (fresh : Nat → Nat) (o : OTree) : (o.to fresh false none).leaves = o.leaves := M.noop_shares fresh o

/-! ### `apply(function)` = `clone()` followed by `apply_(function)` -/

/-- structure and field order are preserved; each result leaf is what the function returns for the clone of the source leaf -/
theorem apply_leaves (fresh g : Nat → Nat) (h : M.DType → M.DType) (o : M.OTree) :
    (o.apply fresh g h).leaves = o.leaves.map (fun p => (g (fresh p.1), h p.2)) := M.apply_leaves fresh g h o

/-- **the result never contains a tensor object of the source, whatever the function does with what it is given** (returns it,
modifies it in place, or returns something new) — so the source is never modified through the result -/
theorem apply_no_share (fresh g : Nat → Nat) (h : M.DType → M.DType) (o : M.OTree) (S : List Nat)
    (hsrc : ∀ p ∈ o.leaves, p.1 ∈ S) (hfresh : ∀ i ∈ S, fresh i ∉ S) (hg : ∀ j, j ∉ S → g j ∉ S) :
    ∀ q ∈ (o.apply fresh g h).leaves, q.1 ∉ S := M.apply_no_share fresh g h o S hsrc hfresh hg

/-- fields that were one object stay one object; different objects stay different when the function does not merge objects -/
theorem apply_alias_kept (fresh g : Nat → Nat) (h : M.DType → M.DType) (o : M.OTree) (i j : Nat)
    (hi : i < o.leaves.length) (hj : j < o.leaves.length) (heq : (o.leaves[i]'hi).1 = (o.leaves[j]'hj).1) :
    ((o.apply fresh g h).leaves[i]'(by rw [M.apply_leaves_length]; exact hi)).1
      = ((o.apply fresh g h).leaves[j]'(by rw [M.apply_leaves_length]; exact hj)).1 := M.apply_alias_kept fresh g h o i j hi hj heq
theorem apply_alias_separate (fresh g : Nat → Nat) (h : M.DType → M.DType) (o : M.OTree)
    (hf : Function.Injective fresh) (hgi : Function.Injective g) (i j : Nat)
    (hi : i < o.leaves.length) (hj : j < o.leaves.length) (hne : (o.leaves[i]'hi).1 ≠ (o.leaves[j]'hj).1) :
    ((o.apply fresh g h).leaves[i]'(by rw [M.apply_leaves_length]; exact hi)).1
      ≠ ((o.apply fresh g h).leaves[j]'(by rw [M.apply_leaves_length]; exact hj)).1 := M.apply_alias_separate fresh g h o hf hgi i j hi hj hne

/-- with the identity function `apply` is `clone()` -/
theorem apply_id_is_clone (fresh : Nat → Nat) (o : M.OTree) :
    (o.apply fresh id id).leaves = (o.to fresh true none).leaves := M.apply_id_eq_clone fresh o

/-- witness: without the clone (the function is handed the source's own objects) an in-place function returns the source's tensors -/
theorem apply_without_clone_shares :
    ∃ (o : M.OTree) (S : List Nat), (∀ p ∈ o.leaves, p.1 ∈ S) ∧ ∃ q ∈ (o.apply id id id).leaves, q.1 ∈ S := M.apply_without_clone_shares

end C18
