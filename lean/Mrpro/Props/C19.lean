import Mrpro.Model.PowerIter
import Mrpro.Lemmas.PowerIterL
import Mrpro.Lemmas.PowerIterConvL
import Mrpro.Lemmas.SrcPowerL
/-! # C19 — operator-norm estimates are scale-free and respect the stated bounds

`powerRun` is the line-by-line model of `LinearOperator.operator_norm` (generic in the vector
type), instantiated here with real inner-product spaces `V`, `W` (bilinear forms `B`, `B'`), an
injective linear operator `A : V → W` and `G = Aᴴ A` (`hG`).  `M` is any bound of the operator norm
(`‖A u‖ ≤ M ‖u‖`), in particular the norm itself.  `stop` is an arbitrary stopping test. -/
namespace C19
open M
variable {V W : Type} [AddCommGroup V] [Module ℝ V] [AddCommGroup W] [Module ℝ W]

def realOps (B : V →ₗ[ℝ] V →ₗ[ℝ] ℝ) : VecOps ℝ V :=
  ⟨fun u v => u + v, fun u v => u - v, fun c v => c • v, fun u v => B u v⟩

structure Setting (B : V →ₗ[ℝ] V →ₗ[ℝ] ℝ) (B' : W →ₗ[ℝ] W →ₗ[ℝ] ℝ) (A : V →ₗ[ℝ] W) (G : V →ₗ[ℝ] V) : Prop where
  symm : ∀ u v, B u v = B v u
  pos : ∀ v, v ≠ 0 → 0 < B v v
  symm' : ∀ u v, B' u v = B' v u
  pos' : ∀ w, w ≠ 0 → 0 < B' w w
  gram : ∀ u v, B u (G v) = B' (A u) (A v)
  inj : ∀ v, v ≠ 0 → A v ≠ 0

variable (B : V →ₗ[ℝ] V →ₗ[ℝ] ℝ) (B' : W →ₗ[ℝ] W →ₗ[ℝ] ℝ) (A : V →ₗ[ℝ] W) (G : V →ₗ[ℝ] V)

/-! ### Tie to the source (regenerated on every run): the assignments of `operator_norm` as they stand in `LinearOperator.py` —
norm of the start value, its normalisation, `Aᴴ A v`, the estimate `√⟨v, G v⟩`, the re-normalisation, the remembered estimate —
are translated into `M.Src.pi_*`, and the loop `M.powerLoop` / `M.powerRun` the theorems of this file are about is built from
exactly them (any vector type, inner product, square root, stopping test). -/
theorem src_iteration {K U : Type} [Div K] [OfNat K 0] [OfNat K 1] (ops : VecOps K U) (sqrt : K → K) (Gf : U → U) (stop : K → K → Bool)
    (fuel : Nat) (v : U) (old last : K) (cb : List K) :
    powerLoop ops sqrt Gf stop (fuel + 1) v old last cb =
      (let vnew := M.Src.pi_apply ops sqrt Gf v
       let est := M.Src.pi_estimate ops sqrt Gf v vnew
       if stop est old then (est, cb.reverse)
       else powerLoop ops sqrt Gf stop fuel (M.Src.pi_normalise ops sqrt Gf vnew) (M.Src.pi_old ops sqrt Gf est) est (est :: cb)) :=
  M.SrcL.powerLoop_succ_src ops sqrt Gf stop fuel v old last cb
theorem src_start {K U : Type} [Div K] [OfNat K 0] [OfNat K 1] (ops : VecOps K U) (sqrt : K → K) (Gf : U → U) (stop : K → K → Bool)
    (v0 : U) (maxIter : Nat) :
    powerRun ops sqrt Gf stop v0 maxIter =
      powerLoop ops sqrt Gf stop maxIter (M.Src.pi_start ops sqrt Gf v0 (M.Src.pi_norm0 ops sqrt Gf v0)) 0 0 [] :=
  M.SrcL.powerRun_src ops sqrt Gf stop v0 maxIter

/-- every reported estimate and the returned value are bounded by the true norm, for every
non-zero start vector of any length, every budget ≥ 1 and every stopping rule -/
theorem estimates_le_norm (h : Setting B B' A G) (Mb : ℝ) (hM0 : 0 ≤ Mb)
    (hM : ∀ u, B' (A u) (A u) ≤ Mb ^ 2 * B u u) (stop : ℝ → ℝ → Bool) (v0 : V) (hv : v0 ≠ 0) (n : Nat) (hn : 1 ≤ n) :
    let r := powerRun (realOps B) Real.sqrt (fun v => G v) stop v0 n
    r.1 ≤ Mb ∧ ∀ e ∈ r.2, e ≤ Mb :=
  M.estimates_le_norm B B' A G h.symm h.pos h.symm' h.pos' h.gram h.inj Mb hM0 hM stop v0 hv n hn

/-- the estimates are non-decreasing over the iterations (callback values, then the returned one) -/
theorem estimates_monotone (h : Setting B B' A G) (stop : ℝ → ℝ → Bool) (v0 : V) (hv : v0 ≠ 0) (n : Nat) (hn : 1 ≤ n) :
    let r := powerRun (realOps B) Real.sqrt (fun v => G v) stop v0 n
    List.IsChain (· ≤ ·) (r.2 ++ [r.1]) :=
  M.estimates_monotone B B' A G h.symm h.pos h.symm' h.pos' h.gram h.inj stop v0 hv n hn

/-- the whole run (result and callback sequence) does not depend on the length or sign of the start vector -/
theorem scale_free (h : Setting B B' A G) (stop : ℝ → ℝ → Bool) (v0 : V) (hv : v0 ≠ 0) (s : ℝ) (hs : s ≠ 0) (n : Nat) :
    powerRun (realOps B) Real.sqrt (fun v => G v) stop (s • v0) n
      = powerRun (realOps B) Real.sqrt (fun v => G v) stop v0 n :=
  M.scale_free B B' A G h.symm h.pos h.symm' h.pos' h.gram h.inj stop v0 hv s hs n

/-- witness: without normalising the start vector (the pinned commit) the first estimate is
`‖A v₀‖`, which depends on the scale and exceeds the norm: identity on ℝ, `v₀ = 2`, one iteration -/
theorem shipped_not_scale_free :
    (powerRunShipped (realOps (LinearMap.mul ℝ ℝ)) Real.sqrt (fun v => v) (fun _ _ => false) (2 : ℝ) 1).1 = 2 ∧
    (powerRun (realOps (LinearMap.mul ℝ ℝ)) Real.sqrt (fun v => v) (fun _ _ => false) (2 : ℝ) 1).1 = 1 :=
  M.shipped_not_scale_free

/-- block bounds: a column `[A₁; A₂]` and a row `[A₁ A₂]` of operators are both bounded by
`√(M₁² + M₂²)` … -/
theorem column_bound (M₁ M₂ a₁ a₂ x : ℝ) (h₁ : a₁ ≤ M₁ ^ 2 * x) (h₂ : a₂ ≤ M₂ ^ 2 * x) :
    a₁ + a₂ ≤ (M₁ ^ 2 + M₂ ^ 2) * x := by nlinarith
theorem row_bound (B' : W →ₗ[ℝ] W →ₗ[ℝ] ℝ) (hs : ∀ u v, B' u v = B' v u) (hp : ∀ w, 0 ≤ B' w w)
    (M₁ M₂ x₁ x₂ : ℝ) (w₁ w₂ : W) (hx₁ : 0 ≤ x₁) (hx₂ : 0 ≤ x₂)
    (h₁ : B' w₁ w₁ ≤ M₁ ^ 2 * x₁) (h₂ : B' w₂ w₂ ≤ M₂ ^ 2 * x₂) :
    B' (w₁ + w₂) (w₁ + w₂) ≤ (M₁ ^ 2 + M₂ ^ 2) * (x₁ + x₂) :=
  M.row_bound B' hs hp M₁ M₂ x₁ x₂ w₁ w₂ hx₁ hx₂ h₁ h₂

/-- … but the documented "max over columns" rule is *not* an upper bound: for `[I I]` on ℝ it gives 1,
while `‖[I I] (1,1)‖² = 4 > 1²·‖(1,1)‖² = 2` -/
theorem max_col_rule_not_bound :
    ∃ x₁ x₂ : ℝ, (x₁ + x₂) ^ 2 > (max (1 : ℝ) 1) ^ 2 * (x₁ ^ 2 + x₂ ^ 2) := ⟨1, 1, by norm_num⟩

/-- closed form of the returned estimate (rule that never stops): with a budget of `n+1` iterations it is the Rayleigh quotient
of `Gⁿ v₀`, whatever the length of `v₀` -/
theorem estimate_closed_form (pos : ∀ v, v ≠ 0 → 0 < B v v) (v0 : V) (n : ℕ) :
    (powerRun (realOps B) Real.sqrt (fun v => G v) (fun _ _ => false) v0 (n + 1)).1
      = Real.sqrt (B ((G ^ n) v0) ((G ^ (n + 1)) v0) / B ((G ^ n) v0) ((G ^ n) v0)) :=
  M.powerRun_closed_form B pos G v0 n

/-- **convergence for generic start vectors**: if the start vector is a combination of B-orthonormal eigenvectors of `G = AᴴA`
whose largest eigenvalue `λ₀` is strictly dominant and has a non-zero coefficient, the estimates tend to `√λ₀` … -/
theorem estimates_tendsto_norm (h : Setting B B' A G) {m : ℕ} (e : Fin (m + 1) → V) (lam c : Fin (m + 1) → ℝ)
    (heig : ∀ i, G (e i) = lam i • e i) (horth : ∀ i j, B (e i) (e j) = if i = j then 1 else 0)
    (hdom : ∀ i, i ≠ 0 → lam i < lam 0) (v0 : V) (hv0 : v0 = ∑ i, c i • e i) (hc : c 0 ≠ 0) :
    Filter.Tendsto (fun n => (powerRun (realOps B) Real.sqrt (fun v => G v) (fun _ _ => false) v0 n).1)
      Filter.atTop (nhds (Real.sqrt (lam 0))) :=
  M.estimates_tendsto_norm B B' A G h.symm h.pos h.symm' h.pos' h.gram h.inj e lam c heig horth hdom v0 hv0 hc

/-- … which is the operator norm on the span of these eigenvectors: `‖A u‖² ≤ λ₀ ‖u‖²`, with equality at `e₀` -/
theorem limit_is_norm (h : Setting B B' A G) {m : ℕ} (e : Fin (m + 1) → V) (lam : Fin (m + 1) → ℝ)
    (heig : ∀ i, G (e i) = lam i • e i) (horth : ∀ i j, B (e i) (e j) = if i = j then 1 else 0)
    (hdom : ∀ i, i ≠ 0 → lam i < lam 0) (d : Fin (m + 1) → ℝ) :
    B' (A (∑ i, d i • e i)) (A (∑ i, d i • e i)) ≤ lam 0 * B (∑ i, d i • e i) (∑ i, d i • e i)
    ∧ B' (A (e 0)) (A (e 0)) = lam 0 * B (e 0) (e 0) :=
  ⟨M.norm_on_span B B' A G h.symm h.pos h.symm' h.pos' h.gram h.inj e lam heig horth hdom d,
   M.norm_on_span_attained B B' A G h.symm h.pos h.symm' h.pos' h.gram h.inj e lam heig⟩

end C19
