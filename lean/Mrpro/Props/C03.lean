import Mrpro.Model.Fourier
namespace C03
end C03
