import Mrpro.Model.Fourier
import Mrpro.Lemmas.Basic
import Mrpro.Lemmas.FourierL
/-! # C03 — Fourier operators compute the MR encoding model at the trajectory points

`wI : ℤ → K` is the twiddle function `t ↦ e^{-2πi t/N}`; the only facts used are the ones stated as
hypotheses (periodicity mod N; for unitarity: multiplicativity and the geometric sum), so the
theorems hold for the complex exponential and for every other primitive root. -/
namespace C03
open M
variable {K : Type} [CommRing K] [StarRing K]

/-- `fftshift ∘ fft ∘ ifftshift` *is* the DFT with both index origins at `N/2`, for even and odd `N` -/
theorem centredDft_eq_spec (n : Nat) (c : K) (wI : Int → K)
    (hper : ∀ a b : Int, a % (n : Int) = b % (n : Int) → wI a = wI b) (x : Nat → K) (k : Nat) (hk : k < n) :
    centredDft n c (fun t => wI t) x k = centredDftSpec n c wI x k :=
  M.centredDft_eq_spec n c wI hper x k hk

/-- centred padding/cropping followed by the centred DFT of the encoding size is the encoding sum
over the *reconstruction* grid with image coordinates `r − N_rec/2` and k-space coordinates
`k − N_enc/2` — the centre-voxel clause of the property — for either parity of either size.
(When cropping, voxels outside the encoded field of view are dropped.) -/
theorem padded_dft_eq_encoding (nrec nenc : Nat) (c : K) (wI : Int → K) (x : Nat → K) (k : Nat) :
    centredDftSpec nenc c wI (padCrop nrec nenc x) k
      = c * sumTo nrec (fun r =>
          if 0 ≤ (r : Int) + padShift nrec nenc ∧ (r : Int) + padShift nrec nenc < nenc
          then wI (((k : Int) - (nenc / 2 : Nat)) * ((r : Int) - (nrec / 2 : Nat))) * x r else 0) :=
  M.padded_dft_eq_encoding nrec nenc c wI x k

/-- the Cartesian path `sampling ∘ FFT ∘ pad` evaluated at a sample with integer k-space coordinate `κ`
inside the encoding matrix equals the encoding model `c·∑_r x[r]·e(κ·(r − N_rec/2))` (padding case). -/
theorem cartesian_path_eq_nudft (nrec nenc : Nat) (h : nrec ≤ nenc) (c : K) (wI : Int → K)
    (hper : ∀ a b : Int, a % (nenc : Int) = b % (nenc : Int) → wI a = wI b)
    (x : Nat → K) (κ : Int) (j : Nat) (hj : axisIdx nenc κ = some j) :
    centredDft nenc c (fun t => wI t) (padCrop nrec nenc x) j
      = c * sumTo nrec (fun r => wI (κ * ((r : Int) - (nrec / 2 : Nat))) * x r) :=
  M.cartesian_path_eq_nudft nrec nenc h c wI hper x κ j hj

/-- without cropping the pure FFT operator is unitary: `adjoint (forward x) = x`, given the defining
properties of the twiddles (`c₁ = c₂ = 1/√n` for norm='ortho') -/
theorem centredDft_unitary (n : Nat) (c₁ c₂ : K) (hc : c₁ * c₂ * (n : K) = 1) (wI : Int → K)
    (hper : ∀ a b : Int, a % (n : Int) = b % (n : Int) → wI a = wI b)
    (hmul : ∀ a b : Int, wI (a + b) = wI a * wI b) (hstar : ∀ a : Int, star (wI a) = wI (-a))
    (hone : wI 0 = 1)
    (hgeom : ∀ d : Int, d % (n : Int) ≠ 0 → (Finset.range n).sum (fun k => wI ((k : Int) * d)) = 0)
    (x : Nat → K) (r : Nat) (hr : r < n) :
    centredIdft n c₂ (fun t => wI t) (centredDft n c₁ (fun t => wI t) x) r = x r :=
  M.centredDft_unitary n c₁ c₂ hc wI hper hmul hstar hone hgeom x r hr

/-- non-vacuity of `centredDft_unitary`: `n = 2`, `ω = −1` over ℚ (with the constant split 1 · 1/2) -/
example : ∃ (wI : Int → ℚ), (∀ a b : Int, a % (2 : Int) = b % (2 : Int) → wI a = wI b) ∧
    (∀ a b : Int, wI (a + b) = wI a * wI b) ∧ wI 0 = 1 ∧ wI 1 = -1 ∧
    (∀ d : Int, d % (2 : Int) ≠ 0 → (Finset.range 2).sum (fun k => wI ((k : Int) * d)) = 0) :=
  M.unitary_example

/-- every axis gets exactly one treatment, a single-valued axis is never transformed, and the axes
handed to the FFT are exactly those the sampling operator re-orders -/
theorem dispatch_partition (s g : Bool) :
    (treatment s g = .ignore ↔ s = true) ∧ (treatment s g = .fft ↔ (s = false ∧ g = true)) ∧
    (treatment s g = .nufft ↔ (s = false ∧ g = false)) := by
  cases s <;> cases g <;> decide
theorem fft_iff_sampling_reorders (t : TrajComp) (tol : Rat) :
    t.treatment tol = .fft ↔ t.isOnGridOnly tol = true := M.fft_iff_sampling_reorders t tol

end C03
