import Mrpro.Model.Autograd
import Mathlib.Tactic.Ring
/-! # C05 — differentiating through an operator yields its adjoint

The wiring installed by `adjoint_as_backward=True` and the hand-written backward of the sparse
projection, as theorems.  The autograd engine itself (which calls `backward` / `jvp` with the
cotangent / tangent) is trusted; that the real operators use this wiring correctly is checked by
`torch.autograd.grad` (first and second order) and forward-mode `jvp` against explicit adjoint /
forward applications. -/
namespace C05
open M
variable {V : Type}

/-- first order: the cotangent is propagated by the adjoint code path -/
theorem vjp_is_adjoint (fw bw : V → V) (g : V) : (Wrapped.backward ⟨fw, bw⟩).apply g = bw g := rfl
/-- second order: differentiating the backward pass applies the forward code path again -/
theorem vjp_vjp_is_forward (fw bw : V → V) (x : V) : (Wrapped.backward (Wrapped.backward ⟨fw, bw⟩)).apply x = fw x := rfl
/-- every even order returns to the operator itself, every odd order to its adjoint -/
theorem backward_iterate (w : Wrapped V) (k : Nat) :
    (Wrapped.backward^[2 * k]) w = w ∧ (Wrapped.backward^[2 * k + 1]) w = w.backward := by
  induction k with
  | zero => exact ⟨rfl, rfl⟩
  | succ k ih =>
    have h2 : (Wrapped.backward^[2 * (k + 1)]) w = w := by
      have : 2 * (k + 1) = (2 * k + 1) + 1 := by ring
      rw [this, Function.iterate_succ_apply', ih.2]; rfl
    refine ⟨h2, ?_⟩
    rw [show 2 * (k + 1) + 1 = (2 * (k + 1)) + 1 by ring, Function.iterate_succ_apply', h2]
/-- forward mode: the tangent is propagated by the forward code path -/
theorem jvp_is_forward (fw bw : V → V) (t : V) : (Wrapped.jvpRule ⟨fw, bw⟩).apply t = fw t := rfl

variable {K : Type} [CommRing K]

/-- complex input: in all four dtype combinations of adjoint matrix and cotangent the hand-written backward is
the complex product `mᴴ·g` (real operands embedded with zero imaginary part) -/
theorem matmul_backward_complex_input (mC gC : Bool) (m g : CPair K)
    (hm : mC = false → m.im = 0) (hg : gC = false → g.im = 0) :
    matmulBackward true mC gC m g = m.mul g := by
  cases mC <;> cases gC <;> simp [matmulBackward, CPair.mul] at * <;> simp [*]
/-- real input: the gradient is the real part of `mᴴ·g` -/
theorem matmul_backward_real_input (mC gC : Bool) (m g : CPair K)
    (hm : mC = false → m.im = 0) (hg : gC = false → g.im = 0) :
    matmulBackward false mC gC m g = ⟨(m.mul g).re, 0⟩ := by
  cases mC <;> cases gC <;> simp [matmulBackward, CPair.mul] at * <;> simp [*]

end C05
