import Mrpro.Model.CG
import Mrpro.Lemmas.CGL
import Mrpro.Lemmas.CGKrylovL
import Mrpro.Lemmas.CGFiniteL
import Mrpro.Lemmas.SrcCGL
/-! # C06 — conjugate gradient

`cgRun` is the line-by-line model of `mrpro.algorithms.optimizers.cg` (generic in the vector type).
Here it is instantiated with an abstract vector space `V` over a linearly ordered field `K`, a
symmetric positive-definite bilinear form `B` (the `vdot`) and an operator `H` that is self-adjoint
and positive definite w.r.t. `B`.  All statements hold for every dimension, right-hand side, start
value, iteration budget and tolerance (`tol2 = none` is `tolerance = 0`). -/
namespace C06
open M
variable {K V : Type} [Field K] [LinearOrder K] [IsStrictOrderedRing K] [AddCommGroup V] [Module K V]

/-- the vector operations of the abstract space -/
def modOps (B : V →ₗ[K] V →ₗ[K] K) : VecOps K V :=
  ⟨fun u v => u + v, fun u v => u - v, fun c v => c • v, fun u v => B u v⟩

/-- `H` is Hermitian positive definite w.r.t. the inner product `B` -/
structure HPD (B : V →ₗ[K] V →ₗ[K] K) (H : V →ₗ[K] V) : Prop where
  symm : ∀ u v, B u v = B v u
  posB : ∀ v, v ≠ 0 → 0 < B v v
  selfadj : ∀ u v, B (H u) v = B u (H v)
  posH : ∀ v, v ≠ 0 → 0 < B v (H v)

variable (B : V →ₗ[K] V →ₗ[K] K) (H : V →ₗ[K] V)

/-- the start value actually used (`initial_value` or, for `None`, the right-hand side) -/
def start (b : V) (x0 : Option V) : V := match x0 with | some v => v | none => b

/-! ### Tie to the source (regenerated on every run): every assignment of `cg` — initial residual and direction, `‖r‖²`, `β`, the new
direction, `H p`, `α`, the updates of solution and residual, the remembered `‖r‖²` — is translated from `cg.py` as it stands into
`M.Src.cg_*` (typed scalar / vector expressions, in source order; the order of the updates is checked by the translator), and the
loop `M.cgLoop` all theorems of this file are about is built from exactly these formulas (`M.cgLoop_succ` unfolds one iteration into
`nextP`, `stepSt`).  The control flow around them (order of the exits, the tolerance test, the callback) is the hand-written part. -/
theorem src_init (b : V) (x0 : Option V) :
    cgInit (M.modOps' B) (fun v => H v) b x0 =
      (let x := M.start' b x0
       let r := M.Src.cg_init_residual (M.modOps' B) (fun v => H v) b x
       { x := x, r := r, p := M.Src.cg_init_direction (M.modOps' B) (fun v => H v) r, rrPrev := none }) := M.SrcL.cg_init_eq B H b x0
theorem src_direction (st : CGState K V) :
    M.nextP B st = (match st.rrPrev with
      | none => some st.p
      | some prev => if prev = 0 then none
          else some (M.Src.cg_direction (M.modOps' B) (fun v => H v) st.r
            (M.Src.cg_beta (M.modOps' B) (fun v => H v) (M.Src.cg_rr (M.modOps' B) (fun v => H v) st.r) prev) st.p)) := M.SrcL.cg_direction_eq B H st
theorem src_step (st : CGState K V) (p : V) :
    M.stepSt B H st p =
      (let ops := M.modOps' B
       let Hf := fun v => H v
       let rr := M.Src.cg_rr ops Hf st.r
       let hp := M.Src.cg_hp ops Hf p
       let α := M.Src.cg_alpha ops Hf rr p hp
       { x := M.Src.cg_solution ops Hf st.x α p, r := M.Src.cg_residual ops Hf st.r α hp, p := p,
         rrPrev := some (M.Src.cg_rr_previous ops Hf rr) }) := M.SrcL.cg_step_eq B H st p
/-- **one whole iteration of `cg`, written with the source formulas only**: the exits (exactly zero residual, tolerance), the direction
update (skipped in the first iteration), `H p`, the step length, the new solution and residual, the record handed to the callback -/
theorem src_iteration (tol2 : Option K) (fuel k : Nat) (st : CGState K V) (tr : List (CGTrace V)) :
    cgLoop (M.modOps' B) (fun v => H v) tol2 (fuel + 1) k st tr =
      (let ops := M.modOps' B
       let Hf := fun v => H v
       let rr := M.Src.cg_rr ops Hf st.r
       if rr = 0 then .ok st.x "zero-residual" tr.reverse
       else if M.tolHit tol2 rr then .ok st.x "tolerance" tr.reverse
       else match (match st.rrPrev with
          | none => some st.p
          | some prev => if prev = 0 then none
              else some (M.Src.cg_direction ops Hf st.r (M.Src.cg_beta ops Hf rr prev) st.p)) with
        | none => .nan k tr.reverse
        | some p =>
          let hp := M.Src.cg_hp ops Hf p
          if ops.dot p hp = 0 then .nan k tr.reverse
          else
            let α := M.Src.cg_alpha ops Hf rr p hp
            let x' := M.Src.cg_solution ops Hf st.x α p
            let r' := M.Src.cg_residual ops Hf st.r α hp
            cgLoop ops Hf tol2 fuel (k + 1) { x := x', r := r', p := p, rrPrev := some (M.Src.cg_rr_previous ops Hf rr) }
              ({ x := x', r := r', k := k } :: tr)) := M.SrcL.cg_iteration_eq B H tol2 fuel k st tr
/-- the model's operations are the ones of this file (so `src_*` speak about the same loop as the theorems below) -/
theorem modOps_eq : M.modOps' B = modOps B := rfl

/-- **finite result**: on an HPD system no division by zero is ever executed — for every start value,
budget and tolerance, including `tolerance = 0` with a residual that becomes exactly zero -/
theorem cg_no_nan (h : HPD B H) (b : V) (x0 : Option V) (maxIter : Nat) (tol2 : Option K) :
    ∃ x reason tr, cgRun (modOps B) (fun v => H v) b x0 maxIter tol2 = .ok x reason tr :=
  M.cg_no_nan B H h.symm h.posB h.selfadj h.posH b x0 maxIter tol2

/-- the residual handed to the callback is the true residual `b − H x_k` of the iterate handed to
the callback, and the iteration numbers are 0, 1, 2, … -/
theorem cg_trace_residual (h : HPD B H) (b : V) (x0 : Option V) (maxIter : Nat) (tol2 : Option K)
    (x : V) (reason : String) (tr : List (CGTrace V))
    (hrun : cgRun (modOps B) (fun v => H v) b x0 maxIter tol2 = .ok x reason tr) :
    (∀ t ∈ tr, t.r = b - H t.x) ∧ tr.map (·.k) = List.range tr.length ∧ tr.length ≤ maxIter :=
  M.cg_trace_residual B H h.symm h.posB h.selfadj h.posH b x0 maxIter tol2 x reason tr hrun

/-- the returned tensor is the last iterate reported (or the start value if no iteration ran) -/
theorem cg_returns_last (h : HPD B H) (b : V) (x0 : Option V) (maxIter : Nat) (tol2 : Option K)
    (x : V) (reason : String) (tr : List (CGTrace V))
    (hrun : cgRun (modOps B) (fun v => H v) b x0 maxIter tol2 = .ok x reason tr) :
    x = ((tr.map (·.x)).getLast?).getD (start b x0) :=
  M.cg_returns_last B H h.symm h.posB h.selfadj h.posH b x0 maxIter tol2 x reason tr hrun

/-- exact termination: when the loop ends because the residual is exactly zero, the returned
vector solves the system -/
theorem cg_exact_stop (h : HPD B H) (b : V) (x0 : Option V) (maxIter : Nat) (tol2 : Option K)
    (x : V) (reason : String) (tr : List (CGTrace V))
    (hrun : cgRun (modOps B) (fun v => H v) b x0 maxIter tol2 = .ok x reason tr)
    (hreason : reason = "zero-residual" ∨ reason = "zero-initial-residual") : H x = b :=
  M.cg_exact_stop B H h.symm h.posB h.selfadj h.posH b x0 maxIter tol2 x reason tr hrun hreason

/-- tolerance stop: the returned iterate has `‖b − H x‖² < tolerance²` -/
theorem cg_tolerance_stop (h : HPD B H) (b : V) (x0 : Option V) (maxIter : Nat) (t : K)
    (x : V) (tr : List (CGTrace V))
    (hrun : cgRun (modOps B) (fun v => H v) b x0 maxIter (some t) = .ok x "tolerance" tr) :
    B (b - H x) (b - H x) < t :=
  M.cg_tolerance_stop B H h.symm h.posB h.selfadj h.posH b x0 maxIter t x tr hrun

/-- **the H-norm error never increases**: along `start, x₁, x₂, …` the energy error
`E(x) = ⟨x* − x, H (x* − x)⟩` is non-increasing, where `H x* = b` -/
theorem cg_error_monotone (h : HPD B H) (b : V) (x0 : Option V) (maxIter : Nat) (tol2 : Option K)
    (x : V) (reason : String) (tr : List (CGTrace V)) (xs : V) (hxs : H xs = b)
    (hrun : cgRun (modOps B) (fun v => H v) b x0 maxIter tol2 = .ok x reason tr) :
    List.IsChain (fun u v => B (xs - v) (H (xs - v)) ≤ B (xs - u) (H (xs - u))) (start b x0 :: tr.map (·.x)) :=
  M.cg_error_monotone B H h.symm h.posB h.selfadj h.posH b x0 maxIter tol2 x reason tr xs hxs hrun

/-- homogeneity in the data (used by C07): scaling right-hand side and start value by `c ≠ 0`
scales every iterate by `c` (with `tolerance = 0`) -/
theorem cg_homogeneous (h : HPD B H) (b : V) (x0 : Option V) (maxIter : Nat) (c : K) (hc : c ≠ 0)
    (x : V) (reason : String) (tr : List (CGTrace V))
    (hrun : cgRun (modOps B) (fun v => H v) b x0 maxIter none = .ok x reason tr) :
    ∃ tr', cgRun (modOps B) (fun v => H v) (c • b) (x0.map (fun v => c • v)) maxIter none = .ok (c • x) reason tr'
      ∧ tr'.map (·.x) = tr.map (fun t => c • t.x) :=
  M.cg_homogeneous B H h.symm h.posB h.selfadj h.posH b x0 maxIter c hc x reason tr hrun

/-- **Krylov optimality of every iterate** (the title statement of C06): the (k+1)-th iterate reported to the callback lies in
`x₀ + 𝒦ₖ₊₁` with `𝒦ₖ₊₁ = span{r₀, H r₀, …, Hᵏ r₀}`, `r₀ = b − H x₀`, and among *all* points of that affine space it has the
smallest H-norm error `E(y) = ⟨x* − y, H (x* − y)⟩`, `H x* = b` — for every HPD system, start value, budget and tolerance -/
theorem cg_krylov_optimal (h : HPD B H) (b : V) (x0 : Option V) (maxIter : Nat) (tol2 : Option K)
    (x : V) (reason : String) (tr : List (CGTrace V)) (xs : V) (hxs : H xs = b)
    (hrun : cgRun (modOps B) (fun v => H v) b x0 maxIter tol2 = .ok x reason tr)
    (k : ℕ) (hk : k < tr.length) :
    tr[k].x - start b x0 ∈
        Submodule.span K (Set.range (fun j : Fin (k + 1) => (H ^ (j : ℕ)) (b - H (start b x0))))
    ∧ ∀ d ∈ Submodule.span K (Set.range (fun j : Fin (k + 1) => (H ^ (j : ℕ)) (b - H (start b x0)))),
        B (xs - tr[k].x) (H (xs - tr[k].x))
          ≤ B (xs - (start b x0 + d)) (H (xs - (start b x0 + d))) :=
  M.cg_krylov_optimal_hpd B H h.symm h.posB h.selfadj h.posH b x0 maxIter tol2 x reason tr xs hxs hrun k hk

/-- Galerkin condition: the residual of the (k+1)-th iterate lies in `𝒦ₖ₊₂` and is orthogonal to `𝒦ₖ₊₁`
(hence residuals of different iterations are mutually orthogonal) -/
theorem cg_krylov_residual (h : HPD B H) (b : V) (x0 : Option V) (maxIter : Nat) (tol2 : Option K)
    (x : V) (reason : String) (tr : List (CGTrace V))
    (hrun : cgRun (modOps B) (fun v => H v) b x0 maxIter tol2 = .ok x reason tr)
    (k : ℕ) (hk : k < tr.length) :
    tr[k].r ∈ M.Kry H (b - H (start b x0)) (k + 2) ∧
      ∀ w ∈ M.Kry H (b - H (start b x0)) (k + 1), B tr[k].r w = 0 :=
  M.cg_krylov_residual B H h.selfadj h.posH b x0 maxIter tol2 x reason tr hrun k hk

/-- **finite termination**: in a space of dimension n, `cg` with tolerance 0 and a budget of at least n iterations returns the
exact solution, and never reports more than n iterates (the residuals it continues past are non-zero and mutually orthogonal) -/
theorem cg_finite_termination [Module.Finite K V] (h : HPD B H) (b : V) (x0 : Option V) (maxIter : Nat)
    (hn : Module.finrank K V ≤ maxIter) (x : V) (reason : String) (tr : List (CGTrace V))
    (hrun : cgRun (modOps B) (fun v => H v) b x0 maxIter none = .ok x reason tr) :
    H x = b ∧ tr.length ≤ Module.finrank K V :=
  M.cg_finite_termination B H h.symm h.posB h.selfadj h.posH b x0 maxIter hn x reason tr hrun

end C06
