import Mrpro.Model.Pure
/-! # C10 — calls are pure (specification)

The specification the library must refine: after any history of calls the world (every tensor and
object passed in, every operator buffer) is what it was, and the output of a call depends only on
that call — not on what was called before, nor on how often.  That the real code refines this
specification is established by the correspondence check (value hash + in-place version of every
argument and buffer after every call of random histories; repeated calls vs fresh instances). -/
namespace C10
open M
variable {W O : Type}

theorem world_unchanged (w : W) (cs : List (Call W O)) : (runHistory w cs).1 = w := by
  induction cs generalizing w with
  | nil => rfl
  | cons c cs ih => simp [runHistory, step, ih]

theorem outputs_eq_map (w : W) (cs : List (Call W O)) : (runHistory w cs).2 = cs.map (fun c => c.run w) := by
  induction cs generalizing w with
  | nil => rfl
  | cons c cs ih => simp [runHistory, step, ih]

/-- the output of a call does not depend on the calls before it (nor after it) -/
theorem out_history_independent (w : W) (pre post : List (Call W O)) (c : Call W O) :
    ((runHistory w (pre ++ c :: post)).2)[pre.length]? = some (c.run w) := by
  rw [outputs_eq_map]; simp

/-- repeating a call gives the same result -/
theorem repeat_same (w : W) (c : Call W O) (mid : List (Call W O)) :
    ((runHistory w (c :: mid ++ [c])).2).head? = ((runHistory w (c :: mid ++ [c])).2).getLast? := by
  rw [outputs_eq_map]
  have : (List.map (fun c => c.run w) (c :: mid ++ [c])) = (c.run w :: List.map (fun c => c.run w) mid) ++ [c.run w] := by simp
  rw [this, List.getLast?_append]; simp

end C10
