import Mrpro.Lemmas.OpMatrixL
import Mrpro.Model.Algebra
import Mrpro.Model.Ops
import Mrpro.Lemmas.Basic
import Mrpro.Lemmas.AlgebraL
import Mrpro.Model.AlgebraExec
import Mrpro.Lemmas.AlgebraExecL
/-! # C04 — operator algebra and gram shortcuts behave like matrix algebra

`build e` is the object graph the overloads construct (with all shortcuts), `Obj.fwd/adj` is how
the classes evaluate it; `den e` / `denH e` evaluate the same expression on the operands without
any shortcut.  The theorems quantify over **all** expression trees (structural induction). -/
namespace C04
open M
variable {K : Type} [CommRing K] [StarRing K] [DecidableEq K]

/-- pointwise superposition (what C02 proves for every leaf operator) -/
def IsLin (op : (Nat → K) → (Nat → K)) : Prop :=
  ∀ (a b : K) (x y : Nat → K) (i : Nat), op (fun t => a * x t + b * y t) i = a * op x i + b * op y i

/-- every expression tree evaluates, through the object graph with all shortcuts, to the plain
expression on the operands — forward path -/
theorem fwd_build_eq_den (Lf La : Nat → (Nat → K) → (Nat → K))
    (hf : ∀ i, IsLin (Lf i)) (ha : ∀ i, IsLin (La i)) (e : Expr K) (x : Nat → K) :
    Obj.fwd Lf La (build e) x = den Lf La e x := M.fwd_build_eq_den Lf La hf ha e x

/-- … and adjoint path (`(A B)ᴴ = Bᴴ Aᴴ`, `(cA)ᴴ = Aᴴ c̄`, `A.H.H = A`, sums, gram rules) -/
theorem adj_build_eq_denH (Lf La : Nat → (Nat → K) → (Nat → K))
    (hf : ∀ i, IsLin (Lf i)) (ha : ∀ i, IsLin (La i)) (e : Expr K) (y : Nat → K) :
    Obj.adj Lf La (build e) y = denH Lf La e y := M.adj_build_eq_denH Lf La hf ha e y

/-- `.gram` always equals `Aᴴ A` (whatever fused rule was used to build it) -/
theorem gram_eq_adj_comp (Lf La : Nat → (Nat → K) → (Nat → K))
    (hf : ∀ i, IsLin (Lf i)) (ha : ∀ i, IsLin (La i)) (e : Expr K) (x : Nat → K) :
    Obj.fwd Lf La (build (.gram e)) x = Obj.adj Lf La (build e) (Obj.fwd Lf La (build e) x) := by
  rw [fwd_build_eq_den Lf La hf ha, adj_build_eq_denH Lf La hf ha, fwd_build_eq_den Lf La hf ha]
  rfl

/-- composite adjointness (shared with C01): if every leaf pair is an adjoint pair on vectors of
length `n`, then so is every expression tree and its `.H` -/
theorem den_adjoint (n : Nat) (Lf La : Nat → (Nat → K) → (Nat → K))
    (hadj : ∀ i x y, inner n (Lf i x) y = inner n x (La i y)) (e : Expr K) (x y : Nat → K) :
    inner n (den Lf La e x) y = inner n x (denH Lf La e y) := M.den_adjoint n Lf La hadj e x y

/-- … hence for what the library actually builds -/
theorem build_adjoint (n : Nat) (Lf La : Nat → (Nat → K) → (Nat → K))
    (hf : ∀ i, IsLin (Lf i)) (ha : ∀ i, IsLin (La i))
    (hadj : ∀ i x y, inner n (Lf i x) y = inner n x (La i y)) (e : Expr K) (x y : Nat → K) :
    inner n (Obj.fwd Lf La (build e) x) y = inner n x (Obj.adj Lf La (build e) y) := by
  rw [fwd_build_eq_den Lf La hf ha, adj_build_eq_denH Lf La hf ha]
  exact den_adjoint n Lf La hadj e x y

/-- every expression is linear (C02 for composites) -/
theorem den_linear (Lf La : Nat → (Nat → K) → (Nat → K))
    (hf : ∀ i, IsLin (Lf i)) (ha : ∀ i, IsLin (La i)) (e : Expr K) :
    IsLin (den Lf La e) ∧ IsLin (denH Lf La e) := M.den_linear Lf La hf ha e

/-- non-vacuity: dense matrices (EinsumOp leaves) satisfy the leaf hypotheses -/
example (n : Nat) (A : Nat → Nat → K) :
    (∀ i, IsLin (fun x => matVec n (A i) x)) ∧ (∀ i, IsLin (fun y => matVecH n n (A i) y)) ∧
    (∀ i x y, inner n (matVec n (A i) x) y = inner n x (matVecH n n (A i) y)) :=
  M.matVec_leaves n A

/-! ### the evaluators the driver executes refine the model

The correspondence check runs `Obj.fwdA / adjA / denA / denHA` (arrays, every node evaluated
once).  They compute, entry by entry, what the function-based model above computes, for every
object graph / expression, provided the array leaves refine the function leaves and the function
leaves only read the first `n` entries of their argument. -/

/-- leaf hypotheses of the refinement -/
structure LeafRefines (n : Nat) (LfA LaA : Nat → Array K → Array K) (Lf La : Nat → (Nat → K) → (Nat → K)) : Prop where
  fwd : ∀ l xa i, i < n → toFn (LfA l xa) i = Lf l (toFn xa) i
  adj : ∀ l xa i, i < n → toFn (LaA l xa) i = La l (toFn xa) i
  congF : ∀ l x x', (∀ j, j < n → x j = x' j) → ∀ i, i < n → Lf l x i = Lf l x' i
  congA : ∀ l x x', (∀ j, j < n → x j = x' j) → ∀ i, i < n → La l x i = La l x' i

theorem fwdA_refines (n : Nat) (LfA LaA : Nat → Array K → Array K) (Lf La : Nat → (Nat → K) → (Nat → K))
    (h : LeafRefines n LfA LaA Lf La) (o : Obj K) (xa : Array K) (i : Nat) (hi : i < n) :
    toFn (Obj.fwdA n LfA LaA o xa) i = Obj.fwd Lf La o (toFn xa) i :=
  M.fwdA_refines n LfA LaA Lf La h.fwd h.adj h.congF h.congA o xa i hi
theorem adjA_refines (n : Nat) (LfA LaA : Nat → Array K → Array K) (Lf La : Nat → (Nat → K) → (Nat → K))
    (h : LeafRefines n LfA LaA Lf La) (o : Obj K) (xa : Array K) (i : Nat) (hi : i < n) :
    toFn (Obj.adjA n LfA LaA o xa) i = Obj.adj Lf La o (toFn xa) i :=
  M.adjA_refines n LfA LaA Lf La h.fwd h.adj h.congF h.congA o xa i hi
theorem denA_refines (n : Nat) (LfA LaA : Nat → Array K → Array K) (Lf La : Nat → (Nat → K) → (Nat → K))
    (h : LeafRefines n LfA LaA Lf La) (e : Expr K) (xa : Array K) (i : Nat) (hi : i < n) :
    toFn (denA n LfA LaA e xa) i = den Lf La e (toFn xa) i :=
  M.denA_refines n LfA LaA Lf La h.fwd h.adj h.congF h.congA e xa i hi
theorem denHA_refines (n : Nat) (LfA LaA : Nat → Array K → Array K) (Lf La : Nat → (Nat → K) → (Nat → K))
    (h : LeafRefines n LfA LaA Lf La) (e : Expr K) (xa : Array K) (i : Nat) (hi : i < n) :
    toFn (denHA n LfA LaA e xa) i = denH Lf La e (toFn xa) i :=
  M.denHA_refines n LfA LaA Lf La h.fwd h.adj h.congF h.congA e xa i hi

/-- non-vacuity: the dense-matrix leaves used by the driver satisfy the refinement hypotheses -/
theorem matLeaf_refines (n : Nat) (A : Nat → Nat → K) :
    LeafRefines n (fun l => matLeafFwd n (A l)) (fun l => matLeafAdj n (A l))
      (fun l => matVec n (A l)) (fun l => matVecH n n (A l)) :=
  ⟨(M.matLeaf_refines n A).1, (M.matLeaf_refines n A).2.1, (M.matLeaf_refines n A).2.2.1, (M.matLeaf_refines n A).2.2.2⟩

/-! ### Operator matrices (`LinearOperatorMatrix`): `M.OpMat` mirrors the class line by line (construction, `@`, `+`, scaling by
scalars / tensors / sequences, `.H`, indexing, `&`, `|`, `from_diagonal`, `forward`, `adjoint`, including what raises), `M.MExpr` are
the programs a user can write, `M.denM / denHM` the plain block-matrix semantics without any object graph or shortcut -/
section OperatorMatrices
variable {K : Type} [CommRing K] [StarRing K] [DecidableEq K]
variable (Lf La : Nat → (Nat → K) → (Nat → K))

/-- every operator-matrix program that the library accepts evaluates, on every tuple of inputs, to its block-matrix semantics -/
theorem opmatrix_forward (hf : ∀ i, M.IsLin' (Lf i)) (ha : ∀ i, M.IsLin' (La i)) (e : M.MExpr K) (A : M.OpMat K)
    (h : M.buildM e = some A) (xs : List (Nat → K)) (hx : xs.length = A.ncols) (hnd : A.ncols ≠ 0 ∨ A.nrows = 0) :
    A.fwd Lf La xs = some (M.denM Lf La e xs) := M.fwdM_buildM_eq_denM Lf La hf ha e A h xs hx hnd

/-- … and so does its adjoint -/
theorem opmatrix_adjoint (hf : ∀ i, M.IsLin' (Lf i)) (ha : ∀ i, M.IsLin' (La i)) (e : M.MExpr K) (A : M.OpMat K)
    (h : M.buildM e = some A) (ys : List (Nat → K)) (hy : ys.length = A.nrows) (hnd : A.ncols ≠ 0 ∨ A.nrows = 0) :
    A.adj Lf La ys = some (M.denHM Lf La e ys) := M.adjM_buildM_eq_denHM Lf La hf ha e A h ys hy hnd

/-- the library accepts a program exactly when its shapes fit (syntactic shape function), and builds a rectangular matrix of
that shape -/
theorem opmatrix_shapes (e : M.MExpr K) :
    ((M.buildM e).isSome ↔ (M.shapeM e).isSome) ∧ ∀ A, M.buildM e = some A → A.WF ∧ M.shapeM e = some A.shape :=
  ⟨M.buildM_isSome_iff e, fun A h => ⟨M.buildM_WF e A h, M.buildM_shape e A h⟩⟩

/-- applying a well-formed matrix raises exactly for a wrong number of inputs or for the degenerate `r×0` shape -/
theorem opmatrix_forward_rejects {A : M.OpMat K} (hA : A.WF) (xs : List (Nat → K)) :
    A.fwd Lf La xs = none ↔ xs.length ≠ A.ncols ∨ (A.ncols = 0 ∧ A.nrows ≠ 0) := M.OpMat.fwd_eq_none_iff Lf La hA xs
end OperatorMatrices

end C04
