import Mrpro.Model.Proto
import Mrpro.Model.OpsND
import Mrpro.Model.Fourier
import Mrpro.Model.AlgebraExec
import Mrpro.Model.OpMatrixExec
import Mrpro.Model.CG
import Mrpro.Model.Functional
import Mrpro.Model.PowerIter
import Mrpro.Model.Signal
import Mrpro.Model.Resample
import Mrpro.Model.Rotation
import Mrpro.Model.Load
import Mrpro.Model.KDataOps
import Mrpro.Model.MoveData
import Mrpro.Model.Dcf
import Mrpro.Model.Dcf2d
import Mrpro.Model.DcfLayout
import Mrpro.Model.WaveletLayout
import Mrpro.Model.Autograd
open Lean M M.Proto

def getTrajComp (j : Json) (k : String) : Except String TrajComp := do
  let o ← j.getObjVal? k
  let shape ← getNats o "shape"
  let vals ← getRats o "vals"
  pure ⟨shape, vals.toArray⟩

def floatParams : FourierParams CFloat where
  c := fun n => ⟨1.0 / Float.sqrt n.toFloat, 0.0⟩
  tw := fun n t => CFloat.cis (-(2.0 * 3.141592653589793 * t.toFloat / n.toFloat))

def tensorFJson (t : Tensor CFloat) : Json :=
  Json.mkObj [("shape", natsJson t.shape), ("data", cfloatsJson t.toList)]

/-- Fourier operators on IEEE doubles -/
def linopF (j : Json) (x : Tensor CFloat) : Except String (Except ErrKind (Tensor CFloat)) := do
  let name ← getStr j "name"
  let adj ← getBool j "adj"
  match name with
  | "fft" =>
      let dims ← getInts j "dim"
      let sizes ← match j.getObjVal? "recon" with
        | .ok Json.null | .error _ => pure none
        | .ok _ => do let r ← getNats j "recon"; let e ← getNats j "enc"; pure (some (r, e))
      pure (if adj then fastFourierAdj floatParams dims sizes x else fastFourierFwd floatParams dims sizes x)
  | "fourier_cart" =>
      -- x: [B, C, z, y, x] ; y: [B, C, k2, k1, k0]
      let enc ← getNats j "enc"; let recon ← getNats j "recon"
      let tshape ← getNats j "tshape"
      let kz ← getTrajComp j "kz"; let ky ← getTrajComp j "ky"; let kx ← getTrajComp j "kx"
      let tol : Rat := 1/1000
      let flags := [kz.isOnGridOnly tol, ky.isOnGridOnly tol, kx.isOnGridOnly tol]
      let fftDims : List Int := ((flags.zip [(-3 : Int), -2, -1]).filter (·.1)).map (·.2)
      let pick := fun (l : List Nat) => ((flags.zip l).filter (·.1)).map (·.2)
      let cs := cartSampInit (enc.getD 0 1) (enc.getD 1 1) (enc.getD 2 1) tshape kz ky kx tol
      if adj then
        pure (do
          let b := x.shape.getD 0 1; let c := x.shape.getD 1 1
          let g ← cartSampAdj cs ⟨[b, c, prodL (x.shape.drop 2)], x.get⟩
          let g5 : Tensor CFloat := ⟨[b, c] ++ cs.grid, g.get⟩
          fastFourierAdj floatParams fftDims (some (pick recon, pick enc)) g5.memo)
      else
        pure (do
          let k ← fastFourierFwd floatParams fftDims (some (pick recon, pick enc)) x
          let b := k.shape.getD 0 1; let c := k.shape.getD 1 1
          let s ← cartSampFwd cs ⟨[b, c, prodL (k.shape.drop 2)], k.get⟩
          pure ⟨[b, c] ++ tshape.drop 1, s.get⟩)
  | _ => throw s!"unknown linopF {name}"

def parseScal (j : Json) : Except String (Scal CRat) := do
  let k ← getStr j "k"
  match k with
  | "py" => match parseCRat (← getStr j "v") with | some c => pure (.py c) | none => throw "scal"
  | "t1" => match parseCRat (← getStr j "v") with | some c => pure (.t1 c) | none => throw "scal"
  | "tn" => let d := (← getCRats j "v").toArray; pure (.tn (fun i => d.getD i 0))
  | _ => throw "scal kind"

partial def parseExpr (j : Json) : Except String (Expr CRat) := do
  let t ← getStr j "t"
  match t with
  | "leaf" => pure (.leaf (← getNat j "i"))
  | "ident" => pure .ident
  | "zero" => pure .zero
  | "comp" => pure (.comp (← parseExpr (← j.getObjVal? "a")) (← parseExpr (← j.getObjVal? "b")))
  | "add" => pure (.add (← parseExpr (← j.getObjVal? "a")) (← parseExpr (← j.getObjVal? "b")))
  | "addT" => pure (.addT (← parseExpr (← j.getObjVal? "a")) (← parseScal (← j.getObjVal? "s")))
  | "rmul" => pure (.rmul (← parseScal (← j.getObjVal? "s")) (← parseExpr (← j.getObjVal? "a")))
  | "mul" => pure (.mul (← parseExpr (← j.getObjVal? "a")) (← parseScal (← j.getObjVal? "s")))
  | "adj" => pure (.adj (← parseExpr (← j.getObjVal? "a")))
  | "gram" => pure (.gram (← parseExpr (← j.getObjVal? "a")))
  | _ => throw s!"expr tag {t}"

def parseIdx (j : Json) : Except String Idx := do
  let t ← getStr j "t"
  match t with
  | "int" => pure (.int (← getInt j "i"))
  | "seq" => pure (.seq (← getInts j "l"))
  | "all" => pure .all
  | "slice" =>
      let a := match j.getObjValAs? Int "start" with | .ok v => some v | .error _ => none
      let b := match j.getObjValAs? Int "stop" with | .ok v => some v | .error _ => none
      pure (.slice a b)
  | _ => throw s!"idx tag {t}"

partial def parseMExpr (j : Json) : Except String (MExpr CRat) := do
  let t ← getStr j "t"
  let sub := fun (k : String) => do parseMExpr (← j.getObjVal? k)
  let ex := fun (k : String) => do parseExpr (← j.getObjVal? k)
  let sc := fun (k : String) => do parseScal (← j.getObjVal? k)
  let scs := fun (k : String) => do (← j.getObjValAs? (Array Json) k).toList.mapM parseScal
  match t with
  | "lit" =>
      let rows ← j.getObjValAs? (Array (Array Json)) "rows"
      pure (.lit (← rows.toList.mapM (fun r => r.toList.mapM parseExpr)))
  | "fromDiag" => pure (.fromDiag (← (← j.getObjValAs? (Array Json) "ops").toList.mapM parseExpr))
  | "matmul" => pure (.matmul (← sub "a") (← sub "b"))
  | "matmulOp" => pure (.matmulOp (← sub "a") (← ex "o"))
  | "add" => pure (.add (← sub "a") (← sub "b"))
  | "addOp" => pure (.addOp (← sub "a") (← ex "o"))
  | "addT" => pure (.addT (← sub "a") (← sc "s"))
  | "rmul" => pure (.rmul (← sc "s") (← sub "a"))
  | "rmulSeq" => pure (.rmulSeq (← scs "ss") (← sub "a"))
  | "mul" => pure (.mul (← sub "a") (← sc "s"))
  | "mulSeq" => pure (.mulSeq (← sub "a") (← scs "ss"))
  | "H" => pure (.H (← sub "a"))
  | "getitem" => pure (.getitem (← sub "a") (← parseIdx (← j.getObjVal? "ri")) (← parseIdx (← j.getObjVal? "ci")))
  | "vstack" => pure (.vstack (← sub "a") (← sub "b"))
  | "vstackOp" => pure (.vstackOp (← sub "a") (← ex "o"))
  | "opVstack" => pure (.opVstack (← ex "o") (← sub "a"))
  | "hstack" => pure (.hstack (← sub "a") (← sub "b"))
  | "hstackOp" => pure (.hstackOp (← sub "a") (← ex "o"))
  | "opHstack" => pure (.opHstack (← ex "o") (← sub "a"))
  | _ => throw s!"mexpr tag {t}"

/-- complex vectors as a *real* inner-product space: `dot u v = Re ∑ conj(u_i) v_i`, real scalars -/
def arrOps : VecOps Rat (Array CRat) where
  add := fun u v => Array.zipWith (· + ·) u v
  sub := fun u v => Array.zipWith (· - ·) u v
  smul := fun c v => v.map (fun z => ⟨c * z.re, c * z.im⟩)
  dot := fun u v => (Array.zipWith (fun a b => a.re * b.re + a.im * b.im) u v).foldl (· + ·) 0

def traceJson (t : List (CGTrace (Array CRat))) : Json :=
  Json.arr (t.map (fun e => Json.mkObj [("x", cratsJson e.x.toList), ("r", cratsJson e.r.toList),
    ("k", Json.num (JsonNumber.fromNat e.k))])).toArray

def getRatTensor (j : Json) (k : String) : Except String (Tensor Rat) := do
  let o ← j.getObjVal? k
  let shape ← getNats o "shape"
  let d ← getRats o "data"
  pure (Tensor.ofList shape d)
def ratTensorJson (t : Tensor Rat) : Json :=
  Json.mkObj [("shape", natsJson t.shape), ("data", ratsJson t.toList)]

def arrOpsF : VecOps Float (Array CFloat) where
  add := fun u v => Array.zipWith (· + ·) u v
  sub := fun u v => Array.zipWith (· - ·) u v
  smul := fun c v => v.map (fun z => ⟨c * z.re, c * z.im⟩)
  dot := fun u v => (Array.zipWith (fun a b => a.re * b.re + a.im * b.im) u v).foldl (· + ·) 0

def parseBound (j : Json) : Except String (Bound Float) := do
  let k ← getStr j "k"
  match k with
  | "none" => pure .none | "neginf" => pure .negInf | "posinf" => pure .posInf
  | "fin" => pure (.fin ((← getFloats j "v").headD 0.0))
  | _ => throw "bound"

def signalFn (fn : String) (a : Array Float) : Except String Float :=
  let g := fun i => a.getD i 0.0
  match fn with
  | "invRec" => pure (invRec (g 0) (g 1) (g 2))
  | "satRec" => pure (satRec (g 0) (g 1) (g 2))
  | "monoExp" => pure (monoExp (g 0) (g 1) (g 2))
  | "molli" => pure (molli (g 0) (g 1) (g 2) (g 3))
  | "tss" => pure (tss (g 0) (g 1) (g 2) (g 3) (g 4) (g 5) (g 6))
  | "wasabi" => pure (wasabi (g 0) (g 1) (g 2) (g 3) (g 4) (g 5) (g 6) (g 7))
  | "wasabiti" => pure (wasabiti (g 0) (g 1) (g 2) (g 3) (g 4) (g 5) (g 6) (g 7))
  | "invRec_dm0" => pure (invRec_dm0 (g 0) (g 1) (g 2))
  | "invRec_dt1" => pure (invRec_dt1 (g 0) (g 1) (g 2))
  | "satRec_dm0" => pure (satRec_dm0 (g 0) (g 1) (g 2))
  | "satRec_dt1" => pure (satRec_dt1 (g 0) (g 1) (g 2))
  | "monoExp_dm0" => pure (monoExp_dm0 (g 0) (g 1) (g 2))
  | "monoExp_dtd" => pure (monoExp_dtd (g 0) (g 1) (g 2))
  | "molli_da" => pure (molli_da (g 0) (g 1) (g 2) (g 3))
  | "molli_dc" => pure (molli_dc (g 0) (g 1) (g 2) (g 3))
  | "molli_dt1" => pure (molli_dt1 (g 0) (g 1) (g 2) (g 3))
  | "tss_dm0" => pure (tss_dm0 (g 0) (g 1) (g 2) (g 3) (g 4) (g 5) (g 6))
  | "tss_dt1" => pure (tss_dt1 (g 0) (g 1) (g 2) (g 3) (g 4) (g 5) (g 6))
  | "tss_dalpha" => pure (tss_dalpha (g 0) (g 1) (g 2) (g 3) (g 4) (g 5) (g 6))
  | "wasabi_db0" => pure (wasabi_db0 (g 0) (g 1) (g 2) (g 3) (g 4) (g 5) (g 6) (g 7))
  | "wasabi_drb1" => pure (wasabi_drb1 (g 0) (g 1) (g 2) (g 3) (g 4) (g 5) (g 6) (g 7))
  | "wasabi_dc" => pure (wasabi_dc (g 0) (g 1) (g 2) (g 3) (g 4) (g 5) (g 6) (g 7))
  | "wasabi_dd" => pure (wasabi_dd (g 0) (g 1) (g 2) (g 3) (g 4) (g 5) (g 6) (g 7))
  | "wasabiti_db0" => pure (wasabiti_db0 (g 0) (g 1) (g 2) (g 3) (g 4) (g 5) (g 6) (g 7))
  | "wasabiti_drb1" => pure (wasabiti_drb1 (g 0) (g 1) (g 2) (g 3) (g 4) (g 5) (g 6) (g 7))
  | "wasabiti_dt1" => pure (wasabiti_dt1 (g 0) (g 1) (g 2) (g 3) (g 4) (g 5) (g 6) (g 7))
  | _ => throw s!"signal fn {fn}"

def qOf (l : List Float) : Q Float := ⟨l.getD 0 0, l.getD 1 0, l.getD 2 0, l.getD 3 0⟩
def qList (q : Q Float) : List Float := [q.a, q.b, q.c, q.w]
def m3Of (l : List Float) : Mat3 Float := ⟨l.getD 0 0, l.getD 1 0, l.getD 2 0, l.getD 3 0, l.getD 4 0, l.getD 5 0, l.getD 6 0, l.getD 7 0, l.getD 8 0⟩
def m3List (m : Mat3 Float) : List Float := [m.m00, m.m01, m.m02, m.m10, m.m11, m.m12, m.m20, m.m21, m.m22]
instance : OfNat Float 1 := ⟨1.0⟩

def rotFn (j : Json) : Except String (List Float) := do
  let fn ← getStr j "fn"
  match fn with
  | "mul" => pure (qList (Q.mul (qOf (← getFloats j "p")) (qOf (← getFloats j "q"))))
  | "conj" => pure (qList (qOf (← getFloats j "q")).conj)
  | "normalize" => pure (qList (F.normalize (qOf (← getFloats j "q"))))
  | "toMat" =>
      let r : Rot Float := ⟨qOf (← getFloats j "q"), ← getBool j "improper"⟩
      pure (m3List r.toMat)
  | "apply" =>
      let r : Rot Float := ⟨qOf (← getFloats j "q"), ← getBool j "improper"⟩
      let v := ← getFloats j "v"
      let vv : V3 Float := ⟨v.getD 0 0, v.getD 1 0, v.getD 2 0⟩
      let o := if ← getBool j "inverse" then r.applyInv vv else r.apply vv
      pure [o.x0, o.x1, o.x2]
  | "canonical" =>
      let ix ← getNats j "xyz_index"
      pure (qList (F.canonical (ix.getD 0 0) (ix.getD 1 0) (ix.getD 2 0) (qOf (← getFloats j "q"))))
  | "fromEuler" => pure (qList (F.fromEuler (← getNats j "axes") (← getFloats j "angles") (← getBool j "intrinsic")))
  | "toEuler" => pure (F.toEuler (qOf (← getFloats j "q")) (← getNats j "axes") (← getBool j "extrinsic"))
  | "matrixToQuat" => pure (qList (F.matrixToQuat (m3Of (← getFloats j "m"))))
  | "fromRotvec" => let v := ← getFloats j "v"; pure (qList (F.fromRotvec ⟨v.getD 0 0, v.getD 1 0, v.getD 2 0⟩))
  | "toRotvec" => let o := F.toRotvec (qOf (← getFloats j "q")); pure [o.x0, o.x1, o.x2]
  | _ => throw s!"rot fn {fn}"

def gridJson (g : Grid Nat) : Json :=
  Json.arr (List.map (fun (o : List (List Nat)) => Json.arr (List.map natsJson o).toArray) g).toArray
def natssOf (j : Json) (k : String) : Except String (List (List Nat)) := do
  let a ← j.getObjValAs? (Array (Array Nat)) k; pure (a.toList.map (·.toList))

def parseDKind (s : String) : Except String DKind :=
  match s with | "bool" => pure .bool | "int" => pure .int | "float" => pure .float | "complex" => pure .complex | _ => throw "dkind"
def showDKind : DKind → String | .bool => "bool" | .int => "int" | .float => "float" | .complex => "complex"
partial def parseOTree (j : Json) : Except String OTree := do
  match j.getObjVal? "n" with
  | .ok (Json.arr cs) => pure (.node (← cs.toList.mapM parseOTree))
  | _ =>
    let id ← getNat j "id"; let k ← parseDKind (← getStr j "kind"); let b ← getNat j "bits"
    pure (.leaf id ⟨k, b⟩)

/-- one structural linear operator (forward or adjoint code path) on exact complex data -/
def linop (j : Json) (x : Tensor CRat) : Except String (Except ErrKind (Tensor CRat)) := do
  let name ← getStr j "name"
  let adj ← getBool j "adj"
  match name with
  | "zeropad" =>
      let dims ← getInts j "dim"; let orig ← getNats j "orig"; let padded ← getNats j "padded"
      pure (if adj then zeroPadOpAdj dims orig padded x else zeroPadOpFwd dims orig padded x)
  | "fd" =>
      let dims ← getInts j "dim"; let mode ← getStr j "mode"; let circ ← getBool j "circular"
      pure (if adj then fdAdj CRat.ofRat dims mode circ x else fdFwd CRat.ofRat dims mode circ x)
  | "sens" =>
      let bc ← getNat j "bc"; let c ← getNat j "c"; let n ← getNat j "n"
      let csm := (← getCRats j "csm").toArray
      let g := fun i => csm.getD i 0
      pure (.ok (if adj then sensOpAdj bc c n g x else sensOpFwd bc c n g x))
  | "dcf" =>
      let bd ← getNat j "bd"; let c ← getNat j "c"; let n ← getNat j "n"
      let d := (← getCRats j "dcf").toArray
      let g := fun i => d.getD i 0
      pure (.ok (if adj then dcfOpAdj bd c n g x else dcfOpFwd bd c n g x))
  | "einsum" =>
      let ba ← getNat j "ba"; let m ← getNat j "m"; let n ← getNat j "n"
      let a := (← getCRats j "matrix").toArray
      let g := fun i => a.getD i 0
      pure (.ok (if adj then einsumOpAdj ba m n g x else einsumOpFwd ba m n g x))
  | "rearrange" =>
      let perm ← getNats j "perm"
      pure (.ok (if adj then permuteAxes (inversePerm perm) x else permuteAxes perm x))
  | "cartsamp" =>
      let enc ← getNats j "enc"
      let tshape ← getNats j "tshape"
      let kz ← getTrajComp j "kz"; let ky ← getTrajComp j "ky"; let kx ← getTrajComp j "kx"
      let tol ← match getStr j "tol" with | .ok s => (match parseRat s with | some r => pure r | none => throw "tol") | .error _ => pure (1/1000 : Rat)
      let cs := cartSampInit (enc.getD 0 1) (enc.getD 1 1) (enc.getD 2 1) tshape kz ky kx tol
      pure (if adj then cartSampAdj cs x else cartSampFwd cs x)
  | _ => throw s!"unknown linop {name}"

def handle (j : Json) : Except String Json := do
  let op ← getStr j "op"
  match op with
  | "ping" => pure (Json.mkObj [("ok", Json.str "pong")])
  | "norm_index" =>
      let ndim ← getNat j "ndim"; let i ← getInt j "index"
      pure (match normIndex ndim i with
        | some n => Json.mkObj [("ok", Json.num (JsonNumber.fromNat n))]
        | none => errJson .indexError)
  | "linop" =>
      let shape ← getNats j "shape"
      let xs ← getCRatss j "xs"
      let mut ys : Array Json := #[]
      let mut oshape : List Nat := []
      for xv in xs do
        match ← linop j (Tensor.ofList shape xv) with
        | .ok t => let t := t.memo; oshape := t.shape; ys := ys.push (cratsJson t.toList)
        | .error e => return errJson e
      pure (Json.mkObj [("shape", natsJson oshape), ("ys", Json.arr ys)])
  | "linopf" =>
      let shape ← getNats j "shape"
      let x ← getCFloats j "x"
      match ← linopF j (Tensor.ofList shape x) with
      | .ok t => pure (tensorFJson t.memo)
      | .error e => pure (errJson e)
  | "expr" =>
      let n ← getNat j "n"
      let leaves := (← getCRatss j "leaves").toArray.map (·.toArray)
      let e ← parseExpr (← j.getObjVal? "e")
      let x := (← getCRats j "x").toArray
      let adj ← getBool j "adj"
      let A := fun (l : Nat) (g : Nat) => (leaves.getD l #[]).getD g 0
      let Lf := fun l (v : Array CRat) => matLeafFwd n (A l) v
      let La := fun l (v : Array CRat) => matLeafAdj n (A l) v
      let o := build e
      let r1 := toFn (if adj then Obj.adjA n Lf La o x else Obj.fwdA n Lf La o x)
      let r2 := toFn (if adj then denHA n Lf La e x else denA n Lf La e x)
      let which := (getStr j "which").toOption.getD "both"
      if which == "build" then pure (Json.mkObj [("build", cratsJson ((List.range n).map r1))])
      else if which == "den" then pure (Json.mkObj [("den", cratsJson ((List.range n).map r2))])
      else pure (Json.mkObj [("build", cratsJson ((List.range n).map r1)), ("den", cratsJson ((List.range n).map r2))])
  | "opmatrix" =>
      -- a LinearOperatorMatrix program on dense n×n leaves: shape of the built matrix, forward or adjoint on a list of vectors
      let n ← getNat j "n"
      let leaves := (← getCRatss j "leaves").toArray.map (·.toArray)
      let prog ← parseMExpr (← j.getObjVal? "e")
      let xs := (← getCRatss j "xs").map (·.toArray)
      let adj ← getBool j "adj"
      let A := fun (l : Nat) (g : Nat) => (leaves.getD l #[]).getD g 0
      let shp := match evalShape prog with
        | some (r, c) => Json.arr #[Json.num (JsonNumber.fromNat r), Json.num (JsonNumber.fromNat c)]
        | none => Json.null
      match evalProgram n A prog adj xs with
      | some ys => pure (Json.mkObj [("status", Json.str "ok"), ("shape", shp), ("ys", Json.arr (ys.map (fun y => cratsJson ((List.range n).map (toFn y)))).toArray)])
      | none => pure (Json.mkObj [("status", Json.str "raises"), ("shape", shp)])
  | "cg" =>
      let n ← getNat j "n"
      let hm := (← getCRats j "H").toArray
      let b := (← getCRats j "b").toArray
      let x0 ← match j.getObjVal? "x0" with
        | .ok Json.null | .error _ => pure none
        | .ok _ => do pure (some (← getCRats j "x0").toArray)
      let maxIter ← getNat j "max_iter"
      let tol2 ← match j.getObjVal? "tol2" with
        | .ok Json.null | .error _ => pure none
        | .ok _ => do match parseRat (← getStr j "tol2") with | some r => pure (some r) | none => throw "tol2"
      let Hop := fun (v : Array CRat) => ofFnN n (matVec n (fun g => hm.getD g 0) (toFn v))
      match cgRun arrOps Hop b x0 maxIter tol2 with
      | .ok x reason tr => pure (Json.mkObj [("status", Json.str "ok"), ("x", cratsJson x.toList), ("reason", Json.str reason), ("trace", traceJson tr)])
      | .nan k tr => pure (Json.mkObj [("status", Json.str "nan"), ("k", Json.num (JsonNumber.fromNat k)), ("trace", traceJson tr)])
  | "functional" =>
      let clsS ← getStr j "cls"
      let cls ← match clsS with
        | "l1" => pure FunCls.l1 | "l1var" => pure FunCls.l1ViewAsReal | "l2" => pure FunCls.l2 | "zero" => pure FunCls.zero
        | _ => throw "cls"
      let dims ← match j.getObjVal? "dim" with
        | .ok Json.null | .error _ => pure none
        | .ok _ => do pure (some (← getInts j "dim"))
      let cfg : FunCfg Rat := { cls := cls, weight := ← getRatTensor j "weight", target := ← getRatTensor j "target", dims := dims,
                                divideByN := ← getBool j "divide_by_n", keepdim := ← getBool j "keepdim" }
      let x ← getRatTensor j "x"
      let call ← getStr j "call"
      let nc := fun (n : Nat) => (n : Rat)
      let r ← match call with
        | "forward" => pure (funForward cfg nc x)
        | "prox" => do let σ ← getRatTensor j "sigma"; pure (funProx cfg nc x σ)
        | "conj" => do let σ ← getRatTensor j "sigma"; pure (funConj cfg nc (1/100000000) (1/1000000) x σ)
        | _ => throw "call"
      pure (match r with | .ok t => ratTensorJson t | .error e => errJson e)
  | "power" =>
      -- A is m×n (row-major, interleaved re/im doubles), v0 has n entries
      let m ← getNat j "m"; let n ← getNat j "n"
      let a := (← getCFloats j "A").toArray
      let v0 := (← getCFloats j "v0").toArray
      let maxIter ← getNat j "max_iter"
      let atol := (← getFloats j "atol").headD 0.0
      let rtol := (← getFloats j "rtol").headD 0.0
      let shipped := (getBool j "shipped").toOption.getD false
      let Af := fun (v : Array CFloat) => Array.ofFn (n := m) (fun i => matVec n (fun g => a.getD g 0) (fun t => v.getD t 0) i.val)
      let AHf := fun (w : Array CFloat) => Array.ofFn (n := n) (fun i => matVecH m n (fun g => a.getD g 0) (fun t => w.getD t 0) i.val)
      let G := fun v => AHf (Af v)
      let stop := fun (est old : Float) => (atol > 0.0 || rtol > 0.0) && (Float.abs (est - old) ≤ atol + rtol * Float.abs old)
      let r := if shipped then powerRunShipped arrOpsF Float.sqrt G stop v0 maxIter else powerRun arrOpsF Float.sqrt G stop v0 maxIter
      pure (Json.mkObj [("norm", floatsJson [r.1]), ("callbacks", floatsJson r.2)])
  | "signal" =>
      let fn ← getStr j "fn"
      let rows ← j.getObjValAs? (Array (Array Nat)) "args"
      let outs ← rows.toList.mapM (fun r => signalFn fn (r.map (fun b => Float.ofBits b.toUInt64)))
      pure (Json.mkObj [("out", floatsJson outs)])
  | "constrain" =>
      let inv ← getBool j "inverse"
      let bs := (← getFloats j "beta_sigmoid").headD 1.0
      let bp := (← getFloats j "beta_softplus").headD 1.0
      let lb ← parseBound (← j.getObjVal? "lb"); let ub ← parseBound (← j.getObjVal? "ub")
      let xs ← getFloats j "x"
      pure (Json.mkObj [("out", floatsJson (xs.map (fun x => if inv then constrainInv bs bp lb ub x else constrainFwd bs bp lb ub x))),
                        ("case", Json.num (JsonNumber.fromNat (boundCase lb ub)))])
  | "fraction_in_view" =>
      let w ← getRats j "w"
      let mask ← j.getObjValAs? (Array Bool) "mask"
      pure (Json.mkObj [("fraction", Json.str (showRat (fractionInView w mask.toList))), ("shipped", Json.str (showRat (fractionInViewShipped w mask.toList)))])
  | "find_width" =>
      let grid ← getRats j "grid"; let prof ← getRats j "prof"
      pure (Json.mkObj [("w", Json.num (JsonNumber.fromNat (findWidthOn grid prof)))])
  | "interp" =>
      let align ← getBool j "align_corners"; let nearest ← getBool j "nearest"
      let pad := match getNat j "padding" with | .ok p => p | .error _ => 0
      let shape ← getNats j "shape"
      let img := (← getRats j "img").toArray
      let pts ← j.getObjValAs? (Array (Array String)) "points"
      let outs ← pts.toList.mapM (fun p => match p.toList.mapM parseRat with
        | some c => pure (interpNDP pad align nearest shape (fun i => img.getD i 0) c)
        | none => throw "point")
      pure (Json.mkObj [("out", ratsJson outs)])
  | "rot" => pure (Json.mkObj [("out", floatsJson (← rotFn j))])
  | "pow_flag" =>
      let n ← getInt j "n"; let b ← getBool j "improper"
      pure (Json.mkObj [("flag", Json.bool (powFlag n b)), ("xor", Json.bool (xorN n.natAbs b))])
  | "load" =>
      let arr ← j.getObjValAs? (Array Json) "acqs"
      let acqs ← arr.toList.mapM (fun a => do
        let key ← getNats a "key"; let flags ← getNat a "flags"; let id ← getNat a "id"
        pure ({ key := key, flags := flags, id := id } : Acq))
      let useFilter ← getBool j "filter"
      let kept := if useFilter then acqs.filter (fun a => isImage a.flags) else acqs
      let ordered := loadOrder kept
      let (nk2, nk1) := shapeK kept
      pure (Json.mkObj [("order", natsJson (ordered.map (·.id))), ("n_k2", Json.num (JsonNumber.fromNat nk2)), ("n_k1", Json.num (JsonNumber.fromNat nk1)),
                        ("ignore_mask", Json.num (JsonNumber.fromNat ignoreMask))])
  | "wavelet_shapes" =>
      let L ← getNat j "L"; let dom ← getNats j "domain"; let level ← getNat j "level"
      pure (Json.mkObj [("shapes", Json.arr ((Wavelet.coefficientsShape L dom level).map natsJson).toArray)])
  | "dcf_glue" =>
      -- dcf_2d3d_voronoi around the Voronoi volumes: positions (one list of d rationals per sample) and the volumes of the unique positions
      let pts ← j.getObjValAs? (Array (Array String)) "pts"
      let ptsR ← pts.toList.mapM (fun p => match p.toList.mapM parseRat with | some c => pure c | none => throw "pts")
      let vol ← getRats j "vol"
      let (w, inv, cnt) := dcfGlueIdx ptsR vol
      match w with
      | some ws => pure (Json.mkObj [("status", Json.str "ok"), ("w", ratsJson ws), ("inverse", natsJson inv), ("counts", natsJson cnt),
                                     ("unique", Json.arr ((uniquePts ptsR).map ratsJson).toArray)])
      | none => pure (Json.mkObj [("status", Json.str "none"), ("inverse", natsJson inv), ("counts", natsJson cnt),
                                   ("unique", Json.arr ((uniquePts ptsR).map ratsJson).toArray)])
  | "dcf_layout" =>
      -- decomposition of DcfData.from_traj_voronoi: v[i][d] = direction i varies along dimension d
      let v ← j.getObjValAs? (Array (Array Bool)) "v"
      let L : DcfLayout.Layout := v.toList.map (·.toList)
      pure (Json.mkObj [("degree", Json.num (DcfLayout.degree L)), ("d_enc", Json.num (DcfLayout.dEnc L)), ("well_formed", Json.bool (DcfLayout.wellFormedShipped L)), ("degree_shipped", Json.num (DcfLayout.degreeShipped L)),
                        ("joint", natsJson (DcfLayout.joint L)), ("one_d", natsJson (DcfLayout.oneD L))])
  | "rpe_krad" =>
      let shifts ← getRats j "shifts"; let c ← getInt j "center"
      let k1 ← getNats j "k1"; let k2 ← getNats j "k2"
      pure (Json.mkObj [("krad", ratsJson ((k1.zip k2).map (fun p => rpeKrad shifts c p.1 p.2)))])
  | "pulseq_traj" =>
      let kx ← getRats j "kx"; let ky ← getRats j "ky"; let kz ← getRats j "kz"
      let nx ← getNat j "nx"; let ny ← getNat j "ny"; let nz ← getNat j "nz"
      let r := pulseqTraj kx ky kz nx ny nz
      pure (Json.mkObj [("kz", ratsJson r.1), ("ky", ratsJson r.2.1), ("kx", ratsJson r.2.2)])
  | "kfreq" =>
      let n ← getNat j "n"; let c ← getInt j "center"; let rev ← getBool j "reversed"
      pure (Json.mkObj [("k", intsJson ((List.range n).map (kfreq n c rev)))])
  | "kdata_ops" =>
      let g0 ← j.getObjValAs? (Array (Array (Array Nat))) "grid"
      let mut g : Grid Nat := g0.toList.map (fun o => o.toList.map (·.toList))
      let ops ← j.getObjValAs? (Array Json) "ops"
      for o in ops do
        let t ← getStr o "t"
        match t with
        | "splitK1" => g := Grid.splitK1 g (← natssOf o "idx")
        | "splitK2" => g := Grid.splitK2 g (← natssOf o "idx")
        | "select" => g := Grid.selectOther g (← getNats o "labelOf") (← getNats o "subset")
        | "merge" => g := Grid.mergeK2K1 g
        | _ => throw s!"kdata op {t}"
      pure (Json.mkObj [("grid", gridJson g)])
  | "split_idx" =>
      let n ← getNat j "n"; let size ← getNat j "size"; let ov ← getNat j "overlap"; let cyc ← getBool j "cyclic"
      pure (Json.mkObj [("idx", Json.arr ((Grid.splitIdx (List.range n) size ov cyc).map natsJson).toArray)])
  | "split_label" =>
      let no ← getNat j "n_other"; let k2 ← getNat j "k2"; let k1 ← getNat j "k1"
      pure (Json.mkObj [("grid", gridJson (Grid.splitLabel no (← natssOf j "idx") k2 k1))])
  | "move" =>
      let tree ← parseOTree (← j.getObjVal? "tree")
      let copy ← getBool j "copy"
      let target ← match j.getObjVal? "target" with
        | .ok Json.null | .error _ => pure none
        | .ok t => do pure (some (⟨← parseDKind (← getStr t "kind"), ← getNat t "bits"⟩ : DType))
      let r := tree.to (fun i => i + 1000000) copy target
      pure (Json.mkObj [("leaves", Json.arr (r.leaves.map (fun p => Json.mkObj [("id", Json.num (JsonNumber.fromNat p.1)), ("kind", Json.str (showDKind p.2.kind)),
        ("bits", Json.num (JsonNumber.fromNat p.2.bits))])).toArray)])
  | "dcf1d" => pure (Json.mkObj [("w", ratsJson (dcf1d (← getRats j "x")))])
  | "matmul_backward" =>
      let m ← getRats j "m"; let g ← getRats j "g"
      let r := matmulBackward (← getBool j "x_complex") (← getBool j "m_complex") (← getBool j "g_complex")
        (⟨m.getD 0 0, m.getD 1 0⟩ : CPair Rat) ⟨g.getD 0 0, g.getD 1 0⟩
      pure (Json.mkObj [("out", ratsJson [r.re, r.im])])
  | "norm_dims" =>
      let ndim ← getNat j "ndim"; let dims ← getInts j "dims"
      pure (match dims.mapM (normIndex ndim) with
        | some ds => if ds.Nodup then Json.mkObj [("ok", natsJson ds)] else errJson .valueError
        | none => errJson .indexError)
  | "zero_pad_or_crop" =>
      let shape ← getNats j "shape"; let x ← getCRats j "x"
      let newShape ← getNats j "new_shape"
      let t := Tensor.ofList shape x
      match j.getObjVal? "dim" with
      | .ok Json.null | .error _ => pure (resultJson (zeroPadOrCropLast t newShape))
      | .ok _ => let dims ← getInts j "dim"; pure (resultJson (zeroPadOrCrop t newShape dims))
  | _ => throw s!"unknown op {op}"

partial def loop (stdin : IO.FS.Stream) : IO Unit := do
  let line ← stdin.getLine
  if line.isEmpty then return ()
  let out := match Json.parse line with
    | .ok j => (match handle j with
        | .ok r => r
        | .error e => Json.mkObj [("bad", Json.str e)])
    | .error e => Json.mkObj [("bad", Json.str e)]
  IO.println out.compress
  (← IO.getStdout).flush
  loop stdin
def main : IO Unit := do loop (← IO.getStdin)
