#!/bin/bash
# offline build of the Lean side (models, theorems, driver executable)
set -e
cd "$(dirname "$0")"
export PYTHONPATH="$PWD:${MRPRO_REPO:-/repo}/src"
/venv/bin/python -W ignore -c "from harness import extract_consts, translate_src; extract_consts.main(); translate_src.main()" 2>&1 | grep -v conda || true
cd lean
(find Mrpro -name '*.lean' | sort | sed 's|/|.|g; s|\.lean$||; s|^|import |') > Mrpro.lean
lake build Mrpro driver 2>&1 | grep -v '^✔' | tail -40
test -x .lake/build/bin/driver
