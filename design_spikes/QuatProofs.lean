import Sp.Model
import Mathlib.Tactic.Ring
import Mathlib.Algebra.Ring.Defs

open M
variable {K : Type} [CommRing K]

theorem toMat_mul (p q : Q K) : (Q.mul p q).toMat = Mat3.mul p.toMat q.toMat := by
  simp only [Q.mul, Q.toMat, Mat3.mul, two, Mat3.mk.injEq]
  refine ⟨?_, ?_, ?_, ?_, ?_, ?_, ?_, ?_, ?_⟩ <;> ring

#print axioms toMat_mul
