import Sp.Model
open M
def parseRat (s : String) : Option Rat :=
  match s.splitOn "/" with
  | [n] => n.toInt?.map (fun i => (i : Rat))
  | [n, d] => do let i ← n.toInt?; let j ← d.toNat?; if j = 0 then none else some ((i : Rat) / (j : Rat))
  | _ => none
def showRat (r : Rat) : String := if r.den = 1 then toString r.num else s!"{r.num}/{r.den}"
def step (line : String) : String :=
  match (line.trimAscii.toString.splitOn " ") with
  | "qmul" :: rest =>
    match rest.mapM parseRat with
    | some [a,b,c,d,e,f,g,h] =>
      let r := Q.mul (K := Rat) ⟨a,b,c,d⟩ ⟨e,f,g,h⟩
      " ".intercalate ([r.a, r.b, r.c, r.w].map showRat)
    | _ => "bad-op"
  | _ => "bad-op"
partial def loop (h : IO.FS.Stream) : IO Unit := do
  let line ← h.getLine
  if line.isEmpty then return ()
  IO.println (step line)
  loop h
def main : IO Unit := do loop (← IO.getStdin)
