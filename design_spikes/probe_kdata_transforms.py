import warnings; warnings.filterwarnings('ignore')
import torch, numpy as np, sys
from mrpro.data import KData
from mrpro.data.traj_calculators import KTrajectoryCartesian
from mrpro.utils import split_idx
kd=KData.from_file('b.h5',KTrajectoryCartesian())
print(kd.data.shape, kd.traj.ky.shape, kd.header.acq_info.idx.k1.shape)
idx=split_idx(torch.arange(4),2,0)
try:
    s=kd.split_k1_into_other(idx,'phase')
    print('split', s.data.shape, s.traj.ky.shape, s.header.acq_info.idx.k1.shape, s.header.acq_info.idx.phase.shape, s.header.acq_info.idx.repetition.flatten(), s.header.acq_info.idx.phase.flatten())
    print(s.data[:,0,0,:,0].real, s.header.acq_info.idx.k1[:,0,:], s.traj.ky[:,0,:,0])
except Exception as e: print('split EXC',type(e).__name__,e)
try:
    s2=kd.select_other_subset(torch.tensor([1]),'repetition'); print('select',s2.data.shape,s2.data[0,0,0,:,0].real, s2.header.acq_info.idx.repetition.flatten())
except Exception as e: print('select EXC',type(e).__name__,e)
r=kd.rearrange_k2_k1_into_k1(); print('rearr', r.data.shape, r.header.acq_info.idx.k1.shape)
print('remove_os same obj', kd.remove_readout_os() is kd)
c=kd.compress_coils(1); print('compress',c.data.shape)
