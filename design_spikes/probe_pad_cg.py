import warnings; warnings.filterwarnings('ignore')
import torch, math
from mrpro.utils.zero_pad_or_crop import zero_pad_or_crop, normalize_index
from mrpro.algorithms.optimizers import cg
from mrpro.operators import EinsumOp, IdentityOp
torch.manual_seed(0)
# S1
try:
    print('pad dim0', zero_pad_or_crop(torch.arange(4.).reshape(2,2),(4,),dim=(0,)).shape)
except Exception as e: print('S1 normalize_index(.,0):', type(e).__name__, e)
# S2 centre
for old,new in [(4,7),(5,8),(7,4),(8,5),(4,6),(5,7),(3,8)]:
    x=torch.zeros(old); x[old//2]=1
    y=zero_pad_or_crop(x,(new,),dim=(-1,))
    print('pad',old,new,'centre at',y.argmax().item() if y.sum()>0 else None,'expected',new//2)
# CG None
H=torch.tensor([[4.,1.],[1.,3.]],dtype=torch.float64); b=torch.tensor([1.,2.],dtype=torch.float64)
op=EinsumOp(H,'i j, j -> i')
x=cg(op,b,None,max_iterations=10,tolerance=0)
print('cg None:',x,'true',torch.linalg.solve(H,b))
x=cg(op,b,torch.zeros_like(b),max_iterations=2,tolerance=0)
print('cg zero 2 it:',x)
x=cg(op,b,torch.zeros_like(b),max_iterations=10,tolerance=0)
print('cg zero 10 it tol 0:',x)
H2=2*torch.eye(3,dtype=torch.float64); b2=torch.tensor([1.,2.,3.],dtype=torch.float64)
print('cg exact term:',cg(EinsumOp(H2,'i j, j -> i'),b2,torch.zeros_like(b2),max_iterations=5,tolerance=0))
