import Sp.Vec
import Mathlib.Algebra.BigOperators.Group.Finset.Basic
import Mathlib.Algebra.BigOperators.Ring.Finset
import Mathlib.Algebra.Star.Basic
import Mathlib.Algebra.BigOperators.Intervals
import Mathlib.Tactic.Ring
import Mathlib.Tactic.Linarith

open M Finset
variable {K : Type} [CommRing K] [StarRing K]
instance : Conj K := ⟨star⟩

theorem sumTo_eq (n : Nat) (f : Nat → K) : sumTo n f = ∑ i ∈ range n, f i := by
  unfold sumTo
  induction n with
  | zero => simp
  | succ n ih => rw [List.range_succ, List.foldl_append, ih, Finset.sum_range_succ]; simp

theorem gather_scatterAdd_adjoint (S G : Nat) (idx : Nat → Nat) (x y : Nat → K) :
    M.inner S (gather G idx x) y = M.inner G x (scatterAdd S idx y) := by
  simp only [M.inner, sumTo_eq, gather, scatterAdd, conj]
  simp_rw [Finset.mul_sum]
  rw [Finset.sum_comm]
  apply Finset.sum_congr rfl
  intro s _
  by_cases h : idx s < G
  · simp [h, Finset.mem_range, mul_ite]
  · simp only [h, if_false, star_zero, zero_mul]
    apply (Finset.sum_eq_zero _).symm
    intro g hg
    have : idx s ≠ g := by intro e; rw [e] at h; exact h (Finset.mem_range.mp hg)
    simp [this]
#print axioms gather_scatterAdd_adjoint
