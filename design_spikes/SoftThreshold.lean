import Mathlib.Tactic.Ring
import Mathlib.Tactic.Linarith
import Mathlib.Algebra.Order.Field.Basic

-- soft threshold optimality over an ordered field (sketch)
variable {K : Type} [Field K] [LinearOrder K] [IsStrictOrderedRing K]

def softThr (x t : K) : K := if x > t then x - t else if x < -t then x + t else 0

theorem softThr_opt (x t p : K) (ht : 0 ≤ t) :
    t * |softThr x t| + (x - softThr x t)^2 / 2 ≤ t * |p| + (x - p)^2 / 2 := by
  unfold softThr
  split_ifs with h1 h2
  · rcases abs_cases p with ⟨hp, _⟩ | ⟨hp, _⟩ <;> rw [hp, abs_of_nonneg (by linarith : 0 ≤ x - t)] <;> nlinarith [sq_nonneg (x - t - p), sq_nonneg (p - x + t)]
  · rcases abs_cases p with ⟨hp, _⟩ | ⟨hp, _⟩ <;> rw [hp, abs_of_nonpos (by linarith : x + t ≤ 0)] <;> nlinarith [sq_nonneg (x + t - p), sq_nonneg (p - x - t)]
  · simp only [abs_zero, mul_zero, zero_add, sub_zero]
    rcases abs_cases p with ⟨hp, _⟩ | ⟨hp, _⟩ <;> rw [hp] <;> nlinarith [sq_nonneg p, sq_nonneg (x - p)]
#print axioms softThr_opt
