import warnings; warnings.filterwarnings('ignore')
import torch, numpy as np, math
from mrpro.data import KTrajectory, SpatialDimension, Rotation
from mrpro.operators import WaveletOp, SliceProjectionOp
from mrpro.utils.slice_profiles import SliceSmoothedRectangular, SliceGaussian
torch.manual_seed(0)
def dense(fn, in_shape, dtype=torch.float64):
    n=int(np.prod(in_shape)); cols=[]
    for i in range(n):
        e=torch.zeros(n,dtype=dtype); e[i]=1
        cols.append(fn(e.reshape(in_shape))[0].flatten())
    return torch.stack(cols,1)
for name in ['haar','db2','sym3','coif1','bior2.2','rbio1.3','dmey']:
    try:
        W=WaveletOp(domain_shape=(8,),dim=(-1,),wavelet_name=name,level=1)
        A=dense(W.forward,(8,)); m=A.shape[0]
        AH=dense(W.adjoint,(m,))
        print(name,'adj err',(A.T-AH).abs().max().item(),'iso err',(A.T@A-torch.eye(8)).abs().max().item())
    except Exception as e: print(name,'EXC',type(e).__name__,str(e)[:80])
# slice projection width
for fw in [2.0,6.0]:
    P=SliceProjectionOp(SpatialDimension(16,16,16),slice_profile=fw)
    vol=torch.zeros(16,16,16); 
    # linear ramp along z → measure weights along z at centre pixel
    M=P.matrix.to_dense().reshape(16,16,16,16,16)  # (y,x, z,y,x)
    wz=M[8,8,:,8,8]
    print('fwhm',fw,'weights along z at centre',wz.numpy().round(3), 'rowsum', M[8,8].sum().item())
P=SliceProjectionOp(SpatialDimension(16,16,16),slice_profile=SliceGaussian(6.0))
M=P.matrix.to_dense().reshape(16,16,16,16,16); print('gauss6', M[8,8,:,8,8].numpy().round(3))
