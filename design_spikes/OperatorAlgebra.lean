import Mathlib.Data.Matrix.Basic
import Mathlib.Data.Matrix.Mul
import Mathlib.LinearAlgebra.Matrix.ConjTranspose
import Mathlib.Tactic.Ring

open Matrix

variable {K : Type} [CommRing K] [StarRing K] [DecidableEq K] {n : Nat}

/-- what the user writes -/
inductive Expr (K : Type) where
  | leaf (i : Nat) | ident | zero
  | comp (a b : Expr K) | add (a b : Expr K)
  | rmul (c : K) (a : Expr K)      -- c * A
  | mul (a : Expr K) (c : K)       -- A * c
  | adj (a : Expr K) | gram (a : Expr K)

/-- the object graph the library builds -/
inductive Obj (K : Type) where
  | leaf (i : Nat) | identity | zeroOp
  | composition (a b : Obj K)
  | sum (a b : Obj K)
  | prodRight (a : Obj K) (c : K)   -- x ↦ c * A x
  | prodLeft (a : Obj K) (c : K)    -- x ↦ A (c * x)
  | adjointOf (a : Obj K)

namespace Obj
def matmul : Obj K → Obj K → Obj K
  | a, identity => a
  | identity, b => b
  | a, b => composition a b
def plus : Obj K → Obj K → Obj K
  | zeroOp, b => b
  | a, zeroOp => a
  | a, b => sum a b
def rmul (c : K) (a : Obj K) : Obj K := if c = 0 then zeroOp else if c = 1 then a else prodRight a c
def mul (a : Obj K) (c : K) : Obj K := if c = 0 then zeroOp else if c = 1 then a else prodLeft a c
def H : Obj K → Obj K
  | adjointOf a => a
  | a => adjointOf a
def gram : Obj K → Obj K
  | composition a b => matmul (matmul (H b) (gram a)) b
  | prodRight a c => rmul (star c * c) (gram a)
  | prodLeft a c => mul (rmul (star c) (gram a)) c
  | a => matmul (H a) a

variable (L : Nat → Matrix (Fin n) (Fin n) K)
mutual
def fwdM : Obj K → Matrix (Fin n) (Fin n) K
  | leaf i => L i | identity => 1 | zeroOp => 0
  | composition a b => fwdM a * fwdM b
  | sum a b => fwdM a + fwdM b
  | prodRight a c => c • fwdM a
  | prodLeft a c => fwdM a * (c • (1 : Matrix (Fin n) (Fin n) K))
  | adjointOf a => adjM a
def adjM : Obj K → Matrix (Fin n) (Fin n) K
  | leaf i => (L i)ᴴ | identity => 1 | zeroOp => 0
  | composition a b => adjM b * adjM a
  | sum a b => adjM a + adjM b
  | prodRight a c => adjM a * (star c • (1 : Matrix (Fin n) (Fin n) K))
  | prodLeft a c => star c • adjM a
  | adjointOf a => fwdM a
end
end Obj

def build : Expr K → Obj K
  | .leaf i => .leaf i | .ident => .identity | .zero => .zeroOp
  | .comp a b => Obj.matmul (build a) (build b)
  | .add a b => Obj.plus (build a) (build b)
  | .rmul c a => Obj.rmul c (build a)
  | .mul a c => Obj.mul (build a) c
  | .adj a => Obj.H (build a)
  | .gram a => Obj.gram (build a)

def den (L : Nat → Matrix (Fin n) (Fin n) K) : Expr K → Matrix (Fin n) (Fin n) K
  | .leaf i => L i | .ident => 1 | .zero => 0
  | .comp a b => den L a * den L b
  | .add a b => den L a + den L b
  | .rmul c a => c • den L a
  | .mul a c => c • den L a
  | .adj a => (den L a)ᴴ
  | .gram a => (den L a)ᴴ * den L a

open Obj
variable (L : Nat → Matrix (Fin n) (Fin n) K)

theorem lawful (o : Obj K) : adjM L o = (fwdM L o)ᴴ ∧ fwdM L o = (adjM L o)ᴴ := by
  induction o with
  | leaf i => simp [fwdM, adjM]
  | identity => simp [fwdM, adjM]
  | zeroOp => simp [fwdM, adjM]
  | composition a b iha ihb => simp [fwdM, adjM, conjTranspose_mul, ← iha.1, ← ihb.1, ← iha.2, ← ihb.2]
  | sum a b iha ihb => simp [fwdM, adjM, ← iha.1, ← ihb.1, ← iha.2, ← ihb.2]
  | prodRight a c iha => simp [fwdM, adjM, conjTranspose_smul, ← iha.1, ← iha.2]
  | prodLeft a c iha => simp [fwdM, adjM, conjTranspose_smul, ← iha.1, ← iha.2]
  | adjointOf a iha => exact ⟨iha.2, iha.1⟩

omit [DecidableEq K] in
theorem fwd_matmul (a b : Obj K) : fwdM L (matmul a b) = fwdM L a * fwdM L b := by
  unfold matmul; split <;> simp [fwdM]
omit [DecidableEq K] in
theorem adj_matmul (a b : Obj K) : adjM L (matmul a b) = adjM L b * adjM L a := by
  unfold matmul; split <;> simp [adjM]
omit [DecidableEq K] in
theorem fwd_plus (a b : Obj K) : fwdM L (plus a b) = fwdM L a + fwdM L b := by
  unfold plus; split <;> simp [fwdM]
theorem fwd_rmul (c : K) (a : Obj K) : fwdM L (rmul c a) = c • fwdM L a := by
  unfold rmul; split_ifs with h0 h1 <;> simp_all [fwdM]
theorem fwd_mul (c : K) (a : Obj K) : fwdM L (mul a c) = c • fwdM L a := by
  unfold mul; split_ifs with h0 h1 <;> simp_all [fwdM]
omit [DecidableEq K] in
theorem fwd_H (a : Obj K) : fwdM L (H a) = adjM L a := by
  unfold H; split <;> simp [fwdM, adjM]

theorem fwd_gram (a : Obj K) : fwdM L (gram a) = adjM L a * fwdM L a := by
  induction a with
  | composition a b iha ihb =>
      simp only [gram, fwd_matmul, fwd_H, iha, fwdM, adjM]; simp only [Matrix.mul_assoc]
  | prodRight a c iha =>
      simp only [gram, fwd_rmul, iha, fwdM, adjM]
      simp [Matrix.mul_smul, Matrix.smul_mul, smul_smul, mul_comm]
  | prodLeft a c iha =>
      simp only [gram, fwd_mul, fwd_rmul, iha, fwdM, adjM]
      simp [Matrix.mul_smul, Matrix.smul_mul, smul_smul, mul_comm]
  | leaf i => simp [gram, fwd_matmul, fwd_H]
  | identity => simp [gram, fwd_matmul, fwd_H]
  | zeroOp => simp [gram, fwd_matmul, fwd_H]
  | sum a b _ _ => simp [gram, fwd_matmul, fwd_H]
  | adjointOf a _ => simp [gram, fwd_matmul, fwd_H]

theorem fwd_build (e : Expr K) : fwdM L (build e) = den L e := by
  induction e with
  | leaf i => simp [build, den, fwdM]
  | ident => simp [build, den, fwdM]
  | zero => simp [build, den, fwdM]
  | comp a b iha ihb => simp [build, den, fwd_matmul, iha, ihb]
  | add a b iha ihb => simp [build, den, fwd_plus, iha, ihb]
  | rmul c a iha => simp [build, den, fwd_rmul, iha]
  | mul a c iha => simp [build, den, fwd_mul, iha]
  | adj a iha => simp [build, den, fwd_H, (lawful L (build a)).1, iha]
  | gram a iha => simp [build, den, fwd_gram, (lawful L (build a)).1, iha]

#print axioms fwd_build
