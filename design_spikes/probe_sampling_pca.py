import warnings; warnings.filterwarnings('ignore')
import torch, math, numpy as np
torch.manual_seed(0)
from mrpro.data import KTrajectory, SpatialDimension, Rotation
from mrpro.operators import *
def dense(op_fn, in_shape, dtype=torch.complex128):
    n=int(np.prod(in_shape)); cols=[]
    for i in range(n):
        e=torch.zeros(n,dtype=dtype); e[i]=1
        cols.append(op_fn(e.reshape(in_shape))[0].flatten())
    return torch.stack(cols,1)
# Cartesian sampling duplicates
kx=torch.tensor([0.,1.,1.,-2.]).reshape(1,1,1,4); ky=torch.zeros(1,1,1,1); kz=torch.zeros(1,1,1,1)
traj=KTrajectory(kz,ky,kx)
S=CartesianSamplingOp(SpatialDimension(1,1,4),traj)
A=dense(S.forward,(1,1,1,1,4)); AH=dense(S.adjoint,(1,1,1,1,4))
print('CartSamp dup: adj err',(A.conj().T-AH).abs().max().item()); print(A.real, AH.real)
# PCA
data=torch.randn(50,4,dtype=torch.complex128)@torch.diag(torch.tensor([5.,1.,.1,.01])).to(torch.complex128)@torch.linalg.qr(torch.randn(4,4,dtype=torch.complex128))[0]
P=PCACompressionOp(data,2)
M=P._compression_matrix[0]
print('PCA rows orthonormal', (M@M.mH-torch.eye(2)).abs().max().item())
d0=data-data.mean(-1,keepdim=True)
C=d0.T@d0.conj()
U,Sg,Vh=torch.linalg.svd(C)
# dominant subspace of conj? check energy captured
proj=(M@d0.T)  # 2 x 50
print('energy captured by op', (proj.abs()**2).sum().item()/ (d0.abs()**2).sum().item())
Mbest=U[:,:2].mH
print('best energy', ((Mbest@d0.T).abs()**2).sum().item()/(d0.abs()**2).sum().item())
# operator norm scale
op=EinsumOp(torch.diag(torch.tensor([3.,1.])).to(torch.float64),'i j, j -> i')
for s in [1e-3,1.,100.]:
    print('opnorm scale',s, op.operator_norm(s*torch.tensor([1.,1.],dtype=torch.float64),dim=None,max_iterations=1).item(), op.operator_norm(s*torch.tensor([1.,1.],dtype=torch.float64),dim=None,max_iterations=30).item())
# matrix op norm
I=IdentityOp(); Mx=LinearOperatorMatrix([[I,I]])
print('matrix norm [I,I]', Mx.operator_norm(torch.ones(3),torch.ones(3)).item(), 'true', math.sqrt(2))
# softplus inverse
C=ConstraintsOp(((1.0,None),),beta_softplus=2.0)
x=torch.tensor([1.0,-0.5,3.0],dtype=torch.float64)
print('constraints inv(fwd(x))', C.inverse(*C(x))[0], x)
C=ConstraintsOp(((1.0,3.0),),beta_sigmoid=2.0)
print('constraints sigmoid inv(fwd(x))', C.inverse(*C(x))[0], x)
# prox_convex_conj sigma mutation
from mrpro.operators.functionals import L1NormViewAsReal
f=L1NormViewAsReal()
sig=torch.tensor([0.0,1.0]); s0=sig.clone()
f.prox_convex_conj(torch.tensor([1.0,2.0]),sig); print('sigma mutated', sig, s0)
# Rotation pow
r=Rotation.random(3,random_state=0,improper=torch.tensor([True,False,True]) if False else 'random')
print('improper', r.is_improper)
m=r.as_matrix()
for n in [1,2,3,-1,-2,0]:
    try:
        rn=r**n
        mn=torch.linalg.matrix_power(m.double(),n) if n>=0 else torch.linalg.matrix_power(torch.linalg.inv(m.double()),-n)
        print('pow',n,'err',(rn.as_matrix().double()-mn).abs().amax((-1,-2)))
    except Exception as e: print('pow',n,'EXC',type(e).__name__,e)
