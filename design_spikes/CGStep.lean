import Mathlib.LinearAlgebra.BilinearMap
import Mathlib.Algebra.Order.Field.Basic
import Mathlib.Tactic.Ring
import Mathlib.Tactic.FieldSimp
import Mathlib.Tactic.Linarith

variable {K V : Type} [Field K] [LinearOrder K] [IsStrictOrderedRing K] [AddCommGroup V] [Module K V]
variable (B : V →ₗ[K] V →ₗ[K] K) (H : V →ₗ[K] V)

/-- one CG update, given rr = B r r and pHp = B p (H p) -/
theorem cg_step_invariants
    (hsym : ∀ u v, B u v = B v u) (hH : ∀ u v, B (H u) v = B u (H v))
    (b x r p : V) (hr : r = b - H x) (hrp : B r p = B r r)
    (hpHp : B p (H p) ≠ 0) :
    let α := B r r / B p (H p)
    let x' := x + α • p
    let r' := r - α • H p
    r' = b - H x' ∧ B r' p = 0 ∧
    (∀ β : K, B r' (r' + β • p) = B r' r') := by
  intro α x' r'
  have hα : α * B p (H p) = B r r := by simp only [α]; field_simp
  have h2 : B r' p = 0 := by
    simp only [r', map_sub, map_smul, LinearMap.sub_apply, LinearMap.smul_apply, smul_eq_mul]
    rw [hH p p] at *
    rw [hrp]; linarith [hα]
  refine ⟨?_, h2, ?_⟩
  · simp only [x', r', hr, map_add, map_smul, sub_sub]
  · intro β
    rw [map_add, map_smul, smul_eq_mul, h2, mul_zero, add_zero]

/-- energy error decreases: E(x') = E(x) - α * rr -/
theorem cg_step_error
    (hsym : ∀ u v, B u v = B v u) (hH : ∀ u v, B (H u) v = B u (H v))
    (e p r : V) (hHe : H e = r) (hrp : B r p = B r r) (hpHp : B p (H p) ≠ 0) :
    let α := B r r / B p (H p)
    B (e - α • p) (H (e - α • p)) = B e (H e) - α * B r r := by
  intro α
  have hα : α * B p (H p) = B r r := by simp only [α]; field_simp
  have h1 : B e (H p) = B r r := by rw [← hH, hHe, hrp]
  have h2 : B p (H e) = B r r := by rw [hHe, hsym, hrp]
  simp only [map_sub, map_smul, LinearMap.sub_apply, LinearMap.smul_apply, smul_eq_mul, h1, h2]
  have : α * (α * B p (H p)) = α * B r r := by rw [hα]
  linarith [this]
#print axioms cg_step_error
