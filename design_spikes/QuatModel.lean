namespace M
class Conj (K : Type) where conj : K → K
export Conj (conj)

/-- quaternion compose exactly as `_compose_quaternions_single` (components 0,1,2 vector part, 3 = w) -/
structure Q (K : Type) where
  a : K
  b : K
  c : K
  w : K
deriving Repr, DecidableEq

variable {K : Type} [Add K] [Sub K] [Mul K] [Neg K]

def Q.mul (p q : Q K) : Q K :=
  let c0 := p.b * q.c - p.c * q.b
  let c1 := p.c * q.a - p.a * q.c
  let c2 := p.a * q.b - p.b * q.a
  { a := p.w * q.a + q.w * p.a + c0,
    b := p.w * q.b + q.w * p.b + c1,
    c := p.w * q.c + q.w * p.c + c2,
    w := p.w * q.w - p.a * q.a - p.b * q.b - p.c * q.c }

structure Mat3 (K : Type) where
  m00 : K
  m01 : K
  m02 : K
  m10 : K
  m11 : K
  m12 : K
  m20 : K
  m21 : K
  m22 : K
deriving Repr, DecidableEq

def two [Add K] (x : K) : K := x + x

def Q.toMat (q : Q K) : Mat3 K :=
  let qq := q.a*q.a; let rr := q.b*q.b; let ss := q.c*q.c; let ww := q.w*q.w
  let qr := q.a*q.b; let sw := q.c*q.w; let qs := q.a*q.c; let rw := q.b*q.w; let rs := q.b*q.c; let qw := q.a*q.w
  { m00 := qq - rr - ss + ww, m01 := two (qr - sw), m02 := two (qs + rw),
    m10 := two (qr + sw), m11 := -qq + rr - ss + ww, m12 := two (rs - qw),
    m20 := two (qs - rw), m21 := two (rs + qw), m22 := -qq - rr + ss + ww }

def Mat3.mul (x y : Mat3 K) : Mat3 K :=
  { m00 := x.m00*y.m00 + x.m01*y.m10 + x.m02*y.m20, m01 := x.m00*y.m01 + x.m01*y.m11 + x.m02*y.m21, m02 := x.m00*y.m02 + x.m01*y.m12 + x.m02*y.m22,
    m10 := x.m10*y.m00 + x.m11*y.m10 + x.m12*y.m20, m11 := x.m10*y.m01 + x.m11*y.m11 + x.m12*y.m21, m12 := x.m10*y.m02 + x.m11*y.m12 + x.m12*y.m22,
    m20 := x.m20*y.m00 + x.m21*y.m10 + x.m22*y.m20, m21 := x.m20*y.m01 + x.m21*y.m11 + x.m22*y.m21, m22 := x.m20*y.m02 + x.m21*y.m12 + x.m22*y.m22 }
end M
