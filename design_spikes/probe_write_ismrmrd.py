import warnings; warnings.filterwarnings('ignore')
import ismrmrd, ismrmrd.xsd, numpy as np, torch, os
from mrpro.data import KData
from mrpro.data.traj_calculators import KTrajectoryCartesian
fn='b.h5'
if os.path.exists(fn): os.remove(fn)
x=ismrmrd.xsd
h=x.ismrmrdHeader(experimentalConditions=x.experimentalConditionsType(H1resonanceFrequency_Hz=128000000))
nx,ny=8,4
es=x.encodingSpaceType(matrixSize=x.matrixSizeType(x=nx,y=ny,z=1),fieldOfView_mm=x.fieldOfViewMm(x=nx,y=ny,z=1))
lim=x.encodingLimitsType()
lim.kspace_encoding_step_1=x.limitType(minimum=0,maximum=ny-1,center=ny//2)
lim.repetition=x.limitType(minimum=0,maximum=1,center=0)
enc=x.encodingType(trajectory=x.trajectoryType('cartesian'),encodedSpace=es,reconSpace=es,encodingLimits=lim)
h.encoding.append(enc)
h.acquisitionSystemInformation=x.acquisitionSystemInformationType(receiverChannels=2)
ds=ismrmrd.Dataset(fn,'dataset',create_if_needed=True)
ds.write_xml_header(x.ToXML(h))
order=[(r,k) for r in range(2) for k in range(ny)]
rng=np.random.default_rng(0); rng.shuffle(order)
cnt=0
for r,k in order:
    acq=ismrmrd.Acquisition(); acq.resize(nx,2)
    acq.idx.kspace_encode_step_1=k; acq.idx.repetition=r; acq.center_sample=nx//2; acq.scan_counter=cnt; cnt+=1
    acq.read_dir[0]=1; acq.phase_dir[1]=1; acq.slice_dir[2]=1
    acq.data[:]=(r*100+k*10+np.arange(nx))[None,:]+1j*np.arange(2)[:,None]
    ds.append_acquisition(acq)
ds.close()
kd=KData.from_file(fn,KTrajectoryCartesian())
print(kd.data.shape, kd.data[:,0,0,:,0].real, kd.traj.ky.flatten(), kd.traj.kx.flatten(), kd.header.acq_info.scan_counter.flatten(), kd.header.acq_info.idx.k1)
