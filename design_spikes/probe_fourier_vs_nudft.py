import warnings; warnings.filterwarnings('ignore')
import torch, numpy as np, math
from mrpro.data import KTrajectory, SpatialDimension
from mrpro.operators import FourierOp, FastFourierOp
torch.manual_seed(0)
def nudft(x, k, nenc):  # x: (ny,nx) complex128 ; k: (2, S) ky,kx ; centre n//2
    ny,nx=x.shape
    ry=(torch.arange(ny)-ny//2).double(); rx=(torch.arange(nx)-nx//2).double()
    ph=torch.exp(-2j*math.pi*(k[0][:,None,None]*ry[None,:,None]/nenc[0]+k[1][:,None,None]*rx[None,None,:]/nenc[1]))
    return (ph*x[None]).sum((1,2))
for (ny,nx),(ey,ex) in [((6,8),(6,8)),((5,7),(5,7)),((5,8),(8,8)),((6,6),(9,8)),((5,5),(8,8)),((4,4),(7,7))]:
    x=torch.randn(ny,nx,dtype=torch.complex128)
    # cartesian full
    ky=(torch.arange(ey)-ey//2).double(); kx=(torch.arange(ex)-ex//2).double()
    traj=KTrajectory(torch.zeros(1,1,1,1),ky.reshape(1,1,ey,1),kx.reshape(1,1,1,ex))
    F=FourierOp(SpatialDimension(1,ny,nx),SpatialDimension(1,ey,ex),traj)
    y=F(x[None,None,None])[0][0,0,0]
    KY,KX=torch.meshgrid(ky,kx,indexing='ij')
    ref=nudft(x,torch.stack([KY.flatten(),KX.flatten()]),(ey,ex)).reshape(ey,ex)
    r=(y/ref)
    print('cart',(ny,nx),(ey,ex),'ratio mean',r.mean().item(),'spread',(r-r.mean()).abs().max().item(), 'expected c',1/math.sqrt(ey*ex))
    # non-cartesian random
    S=20
    k=torch.stack([(torch.rand(S)-0.5)*ey,(torch.rand(S)-0.5)*ex]).double()
    traj=KTrajectory(torch.zeros(1,1,1,1),k[0].reshape(1,1,1,S).float(),k[1].reshape(1,1,1,S).float())
    F=FourierOp(SpatialDimension(1,ny,nx),SpatialDimension(1,ey,ex),traj)
    y=F(x[None,None,None].to(torch.complex64))[0][0,0,0,0]
    ref=nudft(x,torch.stack([traj.ky.flatten().double(),traj.kx.flatten().double()]),(ey,ex))
    r=(y/ref)
    print('  nufft ratio mean',r.mean().item(),'spread',(r-r.mean()).abs().max().item(),'1/sqrt(rec)',1/math.sqrt(ny*nx))
