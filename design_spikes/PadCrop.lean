import Sp.Vec
import Mathlib.Algebra.BigOperators.Group.Finset.Basic
import Mathlib.Algebra.BigOperators.Ring.Finset
import Mathlib.Algebra.Star.Basic
import Mathlib.Algebra.BigOperators.Intervals
import Mathlib.Tactic.Ring
import Mathlib.Tactic.Linarith

open M Finset
variable {K : Type} [CommRing K] [StarRing K]
local instance : Conj K := ⟨star⟩

theorem sumTo_eq' (n : Nat) (f : Nat → K) : sumTo n f = ∑ i ∈ range n, f i := by
  unfold sumTo
  induction n with
  | zero => simp
  | succ n ih => rw [List.range_succ, List.foldl_append, ih, Finset.sum_range_succ]; simp

theorem padShift_antisymm (a b : Nat) : padShift a b = - padShift b a := by
  unfold padShift; omega

/-- centre sample: index old/2 goes to new/2 when padding (old ≤ new) -/
theorem padCrop_centre (old new : Nat) (h : old ≤ new) (hpos : 0 < old) (x : Nat → K) :
    padCrop old new x (new / 2) = x (old / 2) := by
  unfold padCrop padShift
  simp only
  have h1 : (0:Int) ≤ ((new / 2 : Nat) : Int) - (((new / 2 : Nat) : Int) - ((old / 2 : Nat) : Int)) := by omega
  have h2 : ((new / 2 : Nat) : Int) - (((new / 2 : Nat) : Int) - ((old / 2 : Nat) : Int)) < old := by omega
  rw [if_pos ⟨h1, h2⟩]
  congr 1
  omega

/-- adjoint identity: <padCrop a b x, y>_b = <x, padCrop b a y>_a for all sizes -/
theorem padCrop_adjoint (a b : Nat) (x y : Nat → K) :
    M.inner b (padCrop a b x) y = M.inner a x (padCrop b a y) := by
  simp only [M.inner, sumTo_eq', conj]
  -- both sides equal the sum over pairs (i<a, j<b) with j = i + shift
  have L : ∀ j ∈ range b, star (padCrop a b x j) * y j
      = ∑ i ∈ range a, if (j : Int) = i + padShift a b then star (x i) * y j else 0 := by
    intro j hj
    unfold padCrop
    simp only
    split_ifs with hc
    · rw [Finset.sum_eq_single (((j:Int) - padShift a b).toNat)]
      · rw [if_pos (by omega)]
      · intro i _ hi; rw [if_neg (by omega)]
      · intro hn; exfalso; apply hn; rw [Finset.mem_range]; omega
    · rw [star_zero, zero_mul]; symm; apply Finset.sum_eq_zero
      intro i hi; rw [Finset.mem_range] at hi; rw [if_neg (by omega)]
  have R : ∀ i ∈ range a, star (x i) * padCrop b a y i
      = ∑ j ∈ range b, if (j : Int) = i + padShift a b then star (x i) * y j else 0 := by
    intro i hi
    unfold padCrop
    simp only
    rw [padShift_antisymm b a]
    split_ifs with hc
    · rw [Finset.sum_eq_single (((i:Int) - -padShift a b).toNat)]
      · rw [if_pos (by omega)]
      · intro j _ hj; rw [if_neg (by omega)]
      · intro hn; exfalso; apply hn; rw [Finset.mem_range]; omega
    · rw [mul_zero]; symm; apply Finset.sum_eq_zero
      intro j hj; rw [Finset.mem_range] at hj; rw [if_neg (by omega)]
  rw [Finset.sum_congr rfl L, Finset.sum_congr rfl R, Finset.sum_comm]
#print axioms padCrop_adjoint
