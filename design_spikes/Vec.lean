namespace M
/-- sum_{i<n} f i, import-free -/
def sumTo {K : Type} [Add K] [OfNat K 0] (n : Nat) (f : Nat → K) : K :=
  (List.range n).foldl (fun a i => a + f i) 0

class Conj (K : Type) where conj : K → K
export Conj (conj)

variable {K : Type} [Add K] [Mul K] [OfNat K 0] [Conj K]

/-- <x,y> = sum conj(x_i) y_i over i<n (torch.vdot convention) -/
def inner (n : Nat) (x y : Nat → K) : K := sumTo n (fun i => conj (x i) * y i)

/-- gather: y[s] = x[idx s] if idx s < g (in range) else 0 ; s < S -/
def gather (G : Nat) (idx : Nat → Nat) (x : Nat → K) : Nat → K :=
  fun s => if idx s < G then x (idx s) else 0

/-- scatter-add: x[g] = sum_{s<S, idx s = g} y[s] -/
def scatterAdd (S : Nat) (idx : Nat → Nat) (y : Nat → K) : Nat → K :=
  fun g => sumTo S (fun s => if idx s = g then y s else 0)

/-- centred pad/crop along one axis: out[j] = x[j - shift] when in range -/
def padShift (old new : Nat) : Int := (new / 2 : Nat) - (old / 2 : Nat)
def padCrop (old new : Nat) (x : Nat → K) : Nat → K :=
  fun j => let i : Int := (j : Int) - padShift old new
           if 0 ≤ i ∧ i < old then x i.toNat else 0
end M
