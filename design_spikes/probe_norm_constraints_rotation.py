import warnings; warnings.filterwarnings('ignore')
import torch, math, numpy as np
torch.manual_seed(0)
from mrpro.data import KTrajectory, SpatialDimension, Rotation
from mrpro.operators import *
op=EinsumOp(torch.diag(torch.tensor([3.,1.])),'i j, j -> i')
for s in [1e-4,1.,100.]:
    v=s*torch.tensor([1.,1.])
    cb=[]
    r1=op.operator_norm(v,dim=None,max_iterations=1).item()
    r30=op.operator_norm(v,dim=None,max_iterations=30,callback=lambda x: cb.append(x.item())).item()
    print('opnorm scale',s, r1, r30, cb[:4])
I=IdentityOp(); Mx=LinearOperatorMatrix([[I,I]])
print('matrix norm [I,I]', Mx.operator_norm(torch.ones(3),torch.ones(3)).item(), 'true', math.sqrt(2))
C=ConstraintsOp(((1.0,None),),beta_softplus=2.0)
x=torch.tensor([1.0,-0.5,3.0],dtype=torch.float64)
print('constraints inv(fwd(x))', C.inverse(*C(x))[0], x)
C=ConstraintsOp(((None,1.0),),beta_softplus=2.0)
print('constraints upper inv(fwd(x))', C.inverse(*C(x))[0], x)
C=ConstraintsOp(((1.0,3.0),),beta_sigmoid=2.0)
print('constraints sigmoid inv(fwd(x))', C.inverse(*C(x))[0], x)
from mrpro.operators.functionals import L1NormViewAsReal, L1Norm
f=L1NormViewAsReal()
sig=torch.tensor([0.0,1.0]); s0=sig.clone()
f.prox_convex_conj(torch.tensor([1.0,2.0]),sig); print('sigma mutated', sig, s0)
r=Rotation.random(4,random_state=0,improper='random')
print('improper', r.is_improper)
m=r.as_matrix()
for n in [1,2,3,-1,-2,-3,0,5]:
    try:
        rn=r**n
        mn=torch.linalg.matrix_power(m.double(),n) if n>=0 else torch.linalg.matrix_power(torch.linalg.inv(m.double()),-n)
        print('pow',n,'err',(rn.as_matrix().double()-mn).abs().amax((-1,-2)).numpy().round(4), rn.is_improper.numpy())
    except Exception as e: print('pow',n,'EXC',type(e).__name__,e)
# identity reflect
try:
    print('reflect identity', Rotation.identity().reflect().as_matrix())
except Exception as e: print('reflect EXC', e)
print('reflect generic det', torch.linalg.det(Rotation.random(2,random_state=1).reflect().as_matrix()))
