import warnings; warnings.filterwarnings('ignore')
import torch, numpy as np, itertools
from scipy.spatial.transform import Rotation as SR
from mrpro.data import Rotation
from mrpro.data.Rotation import AXIS_ORDER
rng=np.random.default_rng(1)
tr=str.maketrans({AXIS_ORDER[i]:'xyz'[i] for i in range(3)}|{AXIS_ORDER[i].upper():'XYZ'[i] for i in range(3)})
q=rng.normal(size=(7,4)); s=SR.from_quat(q); m=Rotation.from_quat(torch.tensor(q))
def rep(name,a,b): print(f'{name:28s} {np.abs(np.asarray(a)-np.asarray(b)).max():.2e}')
rep('matrix',s.as_matrix(),m.as_matrix())
rep('rotvec',s.as_rotvec(),m.as_rotvec())
rep('from_rotvec',SR.from_rotvec(s.as_rotvec()).as_matrix(),Rotation.from_rotvec(torch.tensor(s.as_rotvec())).as_matrix())
rep('from_matrix',SR.from_matrix(s.as_matrix()).as_matrix(),Rotation.from_matrix(torch.tensor(s.as_matrix())).as_matrix())
rep('magnitude',s.magnitude(),m.magnitude())
rep('mean',s.mean().as_matrix(),m.mean().as_matrix())
rep('inv',s.inv().as_matrix(),m.inv().as_matrix())
v=rng.normal(size=(7,3)); rep('apply',s.apply(v),m(torch.tensor(v))); rep('apply inv',s.apply(v,inverse=True),m(torch.tensor(v),inverse=True))
worst=0
for seq in [''.join(p) for p in itertools.product('xyz',repeat=3) if p[0]!=p[1] and p[1]!=p[2]]:
    for intr in [False,True]:
        sq=seq.upper() if intr else seq
        ang=rng.uniform(-np.pi,np.pi,size=(5,3)); 
        if seq[0]==seq[2]: ang[:,1]=rng.uniform(0,np.pi,5)
        else: ang[:,1]=rng.uniform(-np.pi/2,np.pi/2,5)
        S=SR.from_euler(sq.translate(tr),ang); M=Rotation.from_euler(sq,torch.tensor(ang))
        e1=np.abs(S.as_matrix()-M.as_matrix().numpy()).max()
        e2=np.abs(S.as_euler(sq.translate(tr))-M.as_euler(sq).numpy()).max()
        # gimbal
        angg=ang.copy(); angg[:,1]= (0 if seq[0]==seq[2] else np.pi/2)
        Sg=SR.from_euler(sq.translate(tr),angg); Mg=Rotation.from_euler(sq,torch.tensor(angg))
        e3=np.abs(SR.from_euler(sq.translate(tr),Mg.as_euler(sq).numpy()).as_matrix()-Sg.as_matrix()).max()
        worst=max(worst,e1,e2,e3)
        if max(e1,e2,e3)>1e-6: print(sq,e1,e2,e3)
print('euler worst',worst)
a=rng.normal(size=(5,3)); b=rng.normal(size=(5,3)); w=rng.uniform(0.5,2,5)
Sa,rs=SR.align_vectors(a,b,weights=w); Ma,rm=Rotation.align_vectors(torch.tensor(a),torch.tensor(b),weights=torch.tensor(w))
rep('align',Sa.as_matrix(),Ma.as_matrix()); print(rs,rm.item())
for n in [0.5,2,3,-1.5]:
    rep(f'pow {n}',(s**n).as_matrix(),(m**n).as_matrix())
